#!/bin/sh
# Offline setup: parse every specification with SANY and byte-check the harness.
# Nothing is built from /repo: the checks import pyTRS from the working tree at run time.
HERE="$(cd "$(dirname "$0")" && pwd)"
cd "$HERE" || exit 2
mkdir -p evidence replays
rc=0
T="$(mktemp -d)"
for f in spec/*.tla; do
  m="$(basename "$f" .tla)"
  out="$(cd spec && java -Djava.io.tmpdir="$T" -cp /opt/veriftools/tla/tla2tools.jar:/opt/veriftools/tla/CommunityModules-deps.jar tla2sany.SANY "$m.tla" 2>&1)"
  if echo "$out" | grep -q "Semantic error\|Parse Error\|Fatal errors\|Could not\|\*\*\* Errors"; then
    echo "SANY failed on $m"; echo "$out" | tail -20; rc=1
  fi
done
rm -rf "$T"
PYTHONDONTWRITEBYTECODE=1 /venv/bin/python - <<'PY' || rc=1
import ast, glob, sys
bad = 0
for p in glob.glob("harness/**/*.py", recursive=True) + glob.glob("tools/*.py"):
    try:
        ast.parse(open(p).read(), p)
    except SyntaxError as e:
        print("syntax error", p, e); bad = 1
sys.exit(bad)
PY
[ $rc -eq 0 ] && echo "setup ok"
exit $rc
