#!/bin/sh
# tools/sweep.sh "<seeds>" [tier] : run every claimed check for each seed; report alarms (false-alarm hunting)
seeds="${1:-1 2 3}"; tier="${2:-quick}"
cd "$(dirname "$0")/.." || exit 2
[ -n "$VP_RUN_REPO" ] && export PYTRS_REPO="$VP_RUN_REPO"
ids=$(python3 -c "import json; print(' '.join(c['property_id'] for c in json.load(open('MANIFEST.json'))['checks']))")
bad=0
for s in $seeds; do
  for id in $ids; do
    t0=$(date +%s); out=$(VERIF_SEED=$s timeout 3000 ./check $id --tier $tier 2>&1); rc=$?; t1=$(date +%s)
    if [ $rc -ne 0 ]; then bad=1; echo "ALARM seed=$s $id exit=$rc"; echo "$out" | grep -m3 "VIOLATION\|MACHINERY\|Error" ; fi
    echo "$out" | tail -1; echo "   ($id took $((t1-t0))s)"
  done
done
echo "sweep done bad=$bad"
