#!/usr/bin/env python3
"""tools/mk_tasks.py <round dir, e.g. /tmp/wt9> <emphasis file> [property ids...] : one scratch git worktree of /repo per claimed property,
each with a TASK.md for a sub-agent that is to seed one property-breaking change.

The sub-agent gets the text of the property only (title, statement, quantifier), the rules, a list of what earlier
rounds already touched (functions / files from seeded/*/patch.diff and the stored summaries) and the emphasis of this
round.  Nothing of /verif's machinery is mentioned.  Worktrees are removed again by the caller:
    git -C /repo worktree remove --force <dir>; git -C /repo worktree prune
"""
import json
import os
import re
import subprocess
import sys

VERIF = os.path.dirname(os.path.dirname(os.path.abspath(__file__)))


def touched(prop):
    funcs, files, sums = set(), set(), []
    sd = os.path.join(VERIF, "seeded")
    for name in sorted(os.listdir(sd)):
        mp = os.path.join(sd, name, "meta.json")
        if not os.path.exists(mp):
            continue
        meta = json.load(open(mp))
        if meta.get("property") != prop:
            continue
        diff = open(os.path.join(sd, name, "patch.diff")).read()
        for m in re.finditer(r"^\+\+\+ b/(\S+)", diff, re.M):
            files.add(m.group(1))
        for m in re.finditer(r"^@@[^@]*@@\s*(?:async\s+)?(?:def|class)\s+(\w+)", diff, re.M):
            funcs.add(m.group(1))
        for m in re.finditer(r"^[ +-]\s*def\s+(\w+)", diff, re.M):
            funcs.add(m.group(1))
        sums.append("- %s: %s" % (name, (meta.get("summary") or "")[:260].replace("\n", " ")))
    return sorted(funcs), sorted(files), sums


def main():
    root, emphasis_file = sys.argv[1], sys.argv[2]
    emphasis = open(emphasis_file).read().strip()
    manifest = json.load(open(os.path.join(VERIF, "MANIFEST.json")))
    claimed = sys.argv[3:] or [c["property_id"] for c in manifest["checks"]]     # optional: only these properties
    props = {}
    for line in open(os.path.join(VERIF, "properties.jsonl")):
        p = json.loads(line)
        props[p["id"]] = p
    os.makedirs(root, exist_ok=True)
    for pid in claimed:
        wt = os.path.join(root, pid)
        subprocess.run(["git", "-C", "/repo", "worktree", "add", "-q", "--detach", wt, "HEAD"], check=True)
        p = props[pid]
        funcs, files, sums = touched(pid)
        text = """# Task: seed ONE realistic change into this copy of pyTRS that breaks a stated property

You are working in a scratch git worktree of the Python library pyTRS: `{wt}` (import it with
`PYTHONPATH={wt} /venv/bin/python`; run its tests with
`cd {wt} && PYTHONPATH={wt} /venv/bin/python -m pytest -q -p no:cacheprovider`, expected: 244 passed).

## The property

**{title}**

{statement}

Quantified over: {quant}

## What to produce

Make ONE small, realistic change to the library code under `{wt}/pytrs/` - the kind of change a maintainer could
make in good faith (a refactoring, an optimisation, a "fix", a small feature) - such that
1. the existing test suite still passes (244 passed, unedited), and
2. the property above is violated for at least one input / call sequence that the property's quantifier covers, and
3. the violation is observable through the library's public behaviour.

Deliver, in `{wt}/MUTANT/` (create it):
- `patch.diff`  : `git diff -- pytrs` of your change (it must apply to a clean checkout with `git apply`),
- `demo.py`     : a stand-alone script that imports pytrs, exercises the property on a handful of inputs and exits 1
                  (printing what it saw) when the property is violated, 0 when it holds; it must exit 0 on the clean
                  tree and 1 with your change applied - verify both,
- `meta.json`   : {{"property": "{pid}", "summary": "...what you changed and why it looks innocent...",
                  "needs": "...what an input / call sequence must contain to show the violation...",
                  "clause": "...which clause of the statement is broken...", "files": [...], "ran": [...commands you ran and what they printed...]}}

Leave the change applied in the worktree when you finish.

## Rules

- Work ONLY inside `{wt}`. Never touch `/repo` or `/verif`. Do not use `git stash`, do not commit.
- Do not edit or add tests. Do not special-case a magic input; the change must read as plausible maintenance.
- Check that `import pytrs; print(pytrs.__file__)` shows your worktree.
- The change must differ from what earlier rounds did for this property - a different function AND a different
  mechanism where possible. Already touched for this property:
  functions: {funcs}
  files: {files}
{sums}

## Emphasis of this round

{emphasis}
""".format(wt=wt, title=p.get("title"), statement=p.get("statement"), quant=(p.get("quantifier") or {}).get("text"),
           pid=pid, funcs=", ".join(funcs) or "(none)", files=", ".join(files) or "(none)", sums="\n".join(sums),
           emphasis=emphasis)
        with open(os.path.join(wt, "TASK.md"), "w") as f:
            f.write(text)
        print(wt)


if __name__ == "__main__":
    main()
