#!/bin/sh
# tools/benign.sh [checks...] : every benign patch under selftest/benign applied to a scratch copy of /repo;
# every check must stay green (exit 0; DRIFT lines are allowed).
cd "$(dirname "$0")/.." || exit 2
src="${VP_RUN_REPO:-/repo}"
ids="${*:-$(python3 -c "import json; print(' '.join(c['property_id'] for c in json.load(open('MANIFEST.json'))['checks']))")}"
bad=0
for d in selftest/benign/*.diff; do
  n=$(basename $d .diff); w=$(mktemp -d /tmp/benign_XXXX)
  cp -r $src/pytrs $w/ && (cd $w && patch -s -p1 < /verif/$d 2>/dev/null || patch -s -p1 < "$OLDPWD/$d") || { echo "cannot apply $n"; bad=1; continue; }
  (cd $w && /venv/bin/python -m pytest -q -p no:cacheprovider $src/tests > /dev/null 2>&1)
  for id in $ids; do
    out=$(PYTRS_REPO=$w ./check $id --tier quick 2>&1); rc=$?
    dr=$(echo "$out" | grep -c "^DRIFT")
    [ $rc -ne 0 ] && { bad=1; echo "FALSE ALARM? $n $id exit=$rc"; echo "$out" | grep -m2 "VIOLATION\|MACHINERY"; }
    echo "$n $id exit=$rc drift_lines=$dr"
  done
  rm -rf $w
done
echo "benign done bad=$bad"
