#!/usr/bin/env python3
"""tools/design_table.py <sweep log> : refresh the numbers of DESIGN.md's summary table (TLC states, implementation
cases, records validated, wall time of the quick tier) from the output lines of tools/sweep.sh."""
import re
import sys

VERIF = __import__("os").path.dirname(__import__("os").path.dirname(__import__("os").path.abspath(__file__)))
LINE = re.compile(r"^(C\d\d) tier=quick seed=\d+: (\d+) TLC states, (\d+) implementation cases, (\d+) records validated, "
                  r"(\d+) violation\(s\), (\d+) drift, ([\d.]+)s")


def fmt(n):
    return "{:,}".format(int(n)).replace(",", " ")


def main():
    rows = {}
    for line in open(sys.argv[1]):
        m = LINE.match(line.strip())
        if m:
            rows[m.group(1)] = m.groups()
    path = VERIF + "/DESIGN.md"
    out = []
    for line in open(path):
        m = re.match(r"^\| (C\d\d) \| (.*?) \| ([^|]*) \| ([^|]*) \| ([^|]*) \| ([^|]*) \| (.*) \|$", line.rstrip("\n"))
        if m and m.group(1) in rows:
            _, st, cases, recs, _, _, wall = rows[m.group(1)]
            unit_c = " histories" if "histories" in m.group(4) else ""
            unit_r = " events" if "events" in m.group(5) else ""
            line = "| %s | %s | %s | %s%s | %s%s | %d s | %s |\n" % (m.group(1), m.group(2), fmt(st), fmt(cases), unit_c,
                                                                   fmt(recs), unit_r, round(float(wall)), m.group(7))
        out.append(line)
    open(path, "w").writelines(out)
    print("updated %d rows" % len(rows))


if __name__ == "__main__":
    main()
