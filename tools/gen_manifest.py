#!/usr/bin/env python3
"""Regenerates /verif/MANIFEST.json from the table below (keeps it valid while
the framework grows).  Usage: python3 tools/gen_manifest.py"""
import json
import os

HERE = os.path.dirname(os.path.dirname(os.path.abspath(__file__)))

CLAIMED = {
    "C02": dict(
        technique="TLA+ model of parse_aliquot checked by TLC (exhaustive over chains) + every model case replayed "
                  "into pytrs.Tract + TLC trace validation of the observed pieces against the TLA+ tiling predicate",
        text="TLC proves the transcription of parse_aliquot (spec/Aliquot.tla) tiles Region(chain, dmax) with correct depths "
             "for every chain up to the bound x all depth settings; every such case and thousands of longer random chains are "
             "run through the real Tract API (4 setting channels) and TLC evaluates the same Tiles/DepthOK predicate on each "
             "observed result, so the verdict never depends on the model being faithful, only the exhaustiveness claim does.",
        note="Trusted: TLC, the symbol rendering table (N -> 'N½'), the label tokenizer ('N2SWNE' -> N2,SW,NE). "
             "Text spelling variants are C07's business. Chains beyond length 7 and depths beyond 6 are not explored.",
        design_ref="§5.3, §6 C02"),
    "C05": dict(
        technique="PlusCal/TLA+ transcription of the right-to-left unpacking scan checked against the left-to-right "
                  "denotation by TLC + every list rendered into find_sec/PLSSDesc/Tract + TLC trace validation",
        text="TLC proves scan = Expand (and flag <=> non-ascending range, shift invariance, aliquots_through) for every list "
             "up to 4 written numbers; every such list and thousands of longer random ones are rendered with random documented "
             "connective/keyword spellings and run through find_sec, PLSSDesc (one tract per section, shared description, "
             "warning on every tract) and Tract (lots, ilots); TLC evaluates obs = Expand(input) and descending => warning "
             "on each observation.",
        note="Trusted: the spelling tables in harness/drivers/c05.py. Chained ranges (a - b - c) and equal end points are "
             "outside the claim (drift only). Numbers 1..99 / 1..999.",
        design_ref="§5.2, §6 C05"),
    "C12": dict(
        technique="TLA+ recogniser/Canon/Decompose + encoding and single-edit models enumerated by TLC, each terminal state "
                  "replayed into TRS/Tract/trs_to_dict, TLC trace validation of every observation",
        text="TLC enumerates every combination of component encodings (int, digit string, with lower/upper direction letter, "
             "None, '', junk, placeholders, out-of-range) x defaults and every single-character insertion/deletion/substitution "
             "of every canonical base string, checks the design invariants (round trip, idempotence, strictness, other "
             "components kept) and emits each as a test; the harness runs them through 4 build and 4 string channels and TLC "
             "evaluates canonical-form, strictness (no different valid-looking TRS), attribute decomposition, idempotence and "
             "equality on each observation, plus random numbers 0..999 and multi-edit strings.",
        note="Weaker readings (R3): upper-case direction letters count as standard form; a non-standard string must carry an "
             "error placeholder ('154n97w' -> '154n97wXX' accepted). Negative ints, non-ASCII digits and strings with "
             "surrounding blanks as *components* are outside the stated quantifier.",
        design_ref="§5.6, §6 C12"),
    "C17": dict(
        technique="TLA+ denotation of the documented orders + model of _sort_custom's integer keys, exhaustive TLC check on "
                  "small lists, cases replayed on real Tract/TRS containers, TLC trace validation of every observed order",
        text="(The same sort is also reached through key lists, group_by(sort_key=), sort_grouped(), unpack_group(sort_key=) "
             "and grouping a second batch into= sorted groups: one validated record per group.) "
             "TLC checks for every list up to 3 elements over valid/error/undefined components and every legal key (incl. "
             ".rev, two keys) that successive stable passes on the code's integer keys (north negative, max+1 for missing "
             "numbers) give exactly the documented multi-key order, a permutation with invalid components last; every such "
             "case, 45 illegal-key cases and thousands of random lists (2..8 elements, 1..3 keys, rendered key spellings) are "
             "executed on TractList/TRSList/PLSSDesc.sort_tracts and TLC compares each observed order with Sort(list, keys).",
        note="Trusted: construction of Tract/TRS objects from abstract shapes; identity of elements by id(). Township/range "
             "0 is generated with one direction per axis only ('0n' and '0s' tie); partially interpreted keys ('t.foo') are "
             "outside the claim.",
        design_ref="§5.10, §6 C17"),
    "C01": dict(
        technique="TLA+ grammar of the four documented layouts as a transition system with a denotation, enumerated by "
                  "TLC; every document shape rendered with random documented spellings and parsed; TLC trace validation "
                  "of tracts, layout, error flags and the pretty_desc round trip against Denotation",
        text="TLC enumerates every document shape (layout x Twp/Rge groups x section groups x single/and/range/mixed list) "
             "within the bound and checks the denotation's shape; each shape is rendered several times (Twp/Rge and Section "
             "spellings, separators, connectors, numbers, blocks incl. lots, aliquots, prose, trailing periods) and parsed "
             "with default settings; TLC evaluates on each observation: deduced layout = written layout, tracts = "
             "Denotation(doc) in order with the block verbatim, no error flag, and PLSSDesc(pretty_desc()) gives the same "
             "tracts (descriptions modulo white-space runs).",
        note="Trusted: the rendering vocabularies and layout templates (harness/render.py, harness/plssdoc.py). Blocks do "
             "not end in a word the library culls on purpose (of/the/in/and) and 'ALL' is not placed before ' of <Twp/Rge>' "
             "(the guide's false-match rule). Bounds: <= 3 Twp/Rge groups x <= 3 section groups.",
        design_ref="§5.1, §6 C01"),
    "C20": dict(
        technique="document shapes enumerated by TLC from the PlssDoc grammar, rendered and parsed in pairs (default vs "
                  "mode); TLC trace validation of the relations between the two observations",
        text="For document shapes enumerated from spec/PlssDoc.tla the harness parses each rendered text with and without "
             "the optional mode and TLC checks the relation the property states: segment = same tracts; all sections with "
             "colon => cautious/required = same tracts; no colon => cautious = same tracts plus a pulled_sec_without_colon "
             "warning on description and tracts, required = exactly one tract holding the whole preprocessed text; "
             "sec_within on (leading text, section list, trailing text) x 4 Twp/Rge placements => one tract per section "
             "described by leading + trailing text with a sec_within warning each.",
        note="Colon clauses are claimed for TRS_desc and S_desc_TR (the layouts whose documented rendering has a colon). "
             "Trusted: rendering tables; (trs, desc) pairs compared exactly.",
        design_ref="§6 C20"),
    "C03": dict(
        technique='every token sequence x configuration of the TLA+ token model replayed + seeded soup / entry points / invalid-argument table, all judged by TLC against ObsInvariants!ClauseC03 and ArgTrace!ExpectedExc',
        text="TLC enumerates every admissible token sequence (Twp/Rge, section with/without colon, single/multi, bare section word, five kinds of text) up to the bound x 15 configurations (colon modes, segment, sec_within, every forced layout through keyword / config / parse argument); each is rendered and parsed, plus core-alphabet sequences up to 5 tokens, thousands of soup / truncated / shuffled / unicode / empty texts x random valid configurations x PLSSDesc(), PLSSDesc.parse(), Tract(), Tract.parse(); TLC evaluates 'no exception and at least one tract' on every observation and the documented exception class for 16 invalid-argument situations.",
        note="Trusted: token rendering (harness/plsstok.py, render.py), the projection of public attributes in harness/impl.py (typing and 'whole text' facts are computed in Python and judged in TLA+). The marker walk that assigns text to tracts is not yet modelled action by action (planned PlssWalk.tla); verdicts do not depend on it.",
        design_ref='§5.1, §5.13, §6 C03'),
    "C04": dict(
        technique='TLA+ token model whose text tokens are unique marker words, all sequences x configurations replayed, damaged documents with marker insertions; TLC evaluates ObsInvariants!ClauseC04 on every observation',
        text="Every long text token of every enumerated token sequence is a unique foreign word, so 'every insertion point x every arrangement' is the model's input space; in addition rendered documents are damaged (colons removed, words deleted, stray Twp/Rge or section) and seeded with four marker words at random word boundaries under 12 configurations. TLC checks for each observation that every marker occurs in a tract description or in an unused_desc error flag.",
        note="Trusted: token rendering (harness/plsstok.py, render.py), the projection of public attributes in harness/impl.py (typing and 'whole text' facts are computed in Python and judged in TLA+). The marker walk that assigns text to tracts is not yet modelled action by action (planned PlssWalk.tla); verdicts do not depend on it.",
        design_ref='§5.1, §6 C04'),
    "C09": dict(
        technique="token sequences x configurations + soup parsed; TLC checks every tract's TRS against the TrsForm recogniser, its attributes against Decompose, and orig_desc/source/orig_index",
        text="For every tract of every observation TLC evaluates: the TRS string is in the standard form with numbers or error placeholders (never 'undefined'), twp/rge/sec/number/direction/twprge attributes are exactly its decomposition (TrsForm, shared with C12), orig_desc is the full input text, source is the parent's, orig_index is the zero-based position.",
        note="Trusted: token rendering (harness/plsstok.py, render.py), the projection of public attributes in harness/impl.py (typing and 'whole text' facts are computed in Python and judged in TLA+). The marker walk that assigns text to tracts is not yet modelled action by action (planned PlssWalk.tla); verdicts do not depend on it.",
        design_ref='§5.13, §6 C09'),
    "C10": dict(
        technique='token sequences x configurations + soup + trigger-phrase placements in enumerated document shapes; TLC evaluates ObsInvariants!ClauseC10',
        text='On every observation TLC checks: all flags are str and all flag lines (str, str) tuples on description and tracts, flags and line heads are equal as multisets, every description flag is on every tract, desc_is_flawed <=> an error flag exists, an undecipherable TRS implies an error flag; and for documents with one of 12 trigger phrases placed at the start / middle / end of a block: a warning of that kind is raised and its context contains the trigger word.',
        note="Trusted: token rendering (harness/plsstok.py, render.py), the projection of public attributes in harness/impl.py (typing and 'whole text' facts are computed in Python and judged in TLA+). The marker walk that assigns text to tracts is not yet modelled action by action (planned PlssWalk.tla); verdicts do not depend on it.",
        design_ref='§5.13, §6 C10'),
    "C11": dict(
        technique='TLA+ model decides per (token sequence, configuration) whether the parse must fall back (MustFallBack, BothFound); all cases replayed; forced copy_all through 3 channels on documents and soup; TLC evaluates ObsInvariants!ClauseC11',
        text="spec/PlssDesc.tla models layout deduction and section rejection (colon rule, 'of/in' rule, cautious second pass) and from them the situations in which exactly one whole-text tract is due; TLC emits every case with that verdict, the harness parses it and TLC checks: forced or deduced copy_all / must-fall-back => exactly one tract carrying the entire preprocessed text, an error flag unless both a Twp/Rge and a section were found, and never two whole-text tracts.",
        note="Trusted: token rendering (harness/plsstok.py, render.py), the projection of public attributes in harness/impl.py (typing and 'whole text' facts are computed in Python and judged in TLA+). The marker walk that assigns text to tracts is not yet modelled action by action (planned PlssWalk.tla); verdicts do not depend on it.",
        design_ref='§5.1, §6 C11'),
    "C13": dict(
        technique="TLA+ codec (Encode/Decode) and a life-cycle model of one setting through its channels "
                  "(Create/Assign/Parse) checked by TLC; every codec assignment and every scenario replayed; TLC trace "
                  "validation of round trips and of scenario-vs-reference equality",
        text="TLC checks Decode(Encode(c)) = c for every assignment with up to two settings set and that, in the life-cycle "
             "model, the strongest channel governs the parse; each emitted assignment is built through text / from_dict / "
             "from_kwargs, decompiled and read back (plus random full assignments, unknown names => ValueError); each emitted "
             "scenario (target x setting x value x channel x conflicting value in a weaker channel, incl. MasterConfig) is "
             "executed on a probe description where the setting is observable together with its reference scenario (value "
             "given in the config string at creation) and TLC requires equal projected results and agreement with the model's "
             "governing value.",
        note="Trusted: probe descriptions per setting, projection of results. Scenarios vary one setting at a time; a .config "
             "assigned after creation counts as the later (stronger) config channel. Tract: only settings that affect "
             "Tract.parse (default directions / ocr_scrub matter only in from_twprgesec, covered by C12).",
        design_ref="§5.7, §6 C13"),
    "C14": dict(
        technique="TLA+ symbolic life-cycle model (Lifecycle.tla) checked by TLC; all bounded behaviours and random longer "
                  "call histories replayed on real Tract/PLSSDesc objects; every recorded call validated by the trace "
                  "specification (equal symbolic state => equal snapshot, fresh objects included)",
        text="The model names a committed parse by the attributes and keywords it ran with and tracks what each call may "
             "change; TLC checks commit=False changes nothing, committing calls are idempotent, a committed parse replaces "
             "and equals the fresh-object result. Every behaviour of the bounded model, every fresh object (+ one committed "
             "parse) and hundreds of random histories (3..18 calls, immediate re-parses, config assignment, preprocess, "
             "sort, filter) are executed; after each call a snapshot of every public attribute of the object and its tracts "
             "is recorded; the trace spec requires all objects in the same symbolic state - across histories - to have the "
             "same snapshot and calls with the same settings to return the same value.",
        note="Trusted: the snapshot projection (DESIGN Appendix B; flags as multisets; 28-bit hash). One probe text per "
             "object kind; settings varied: clean_qq, qq_depth (Tract); sec_colon_cautious, parse_qq, clean_qq, default_ns "
             "(PLSSDesc).",
        design_ref="§5.8, §6 C14"),
    "C15": dict(
        technique="TLA+ model of the process-global state (MasterConfig, TRS cache with ghost soundness marks, caller "
                  "mutations) checked by TLC incl. two injected design faults; behaviours replayed in worker processes; "
                  "trace validation: every probe outcome is a function of Pure(probe, MasterConfig), fresh-interpreter "
                  "references included",
        text="TLC checks CacheSound / ProbeIsPure / RestoreRestores over all histories up to the bound and that the faults "
             "'public conversion returns the cached dict' and 'default frozen at import' are caught; a sample of all bounded "
             "histories plus random longer ones (set/restore MasterConfig, clear/disable/pre-warm the cache, parse other "
             "descriptions, mutate dicts/lists returned by 6 conversion paths) is executed, each probe's complete outcome "
             "hashed; the trace spec replays MasterConfig through the events and requires one outcome per Pure(probe, "
             "MasterConfig) across all histories and the fresh-interpreter reference runs (every probe x 4 MasterConfig values). "
             "Further actions: objects the caller keeps (a description created with wait_to_parse, a tract, a Config object "
             "handed to several entry points), layout questions, dry runs (commit=False) on kept objects; the model-checking "
             "runs use a VIEW that hides all but the last entry of the history.",
        note="Trusted: probe projections; reset of global state between histories in the workers. Tract.__UID is not "
             "observable through the probes (creation order only matters for 'i' sorting, C17).",
        design_ref="§5.9, §6 C15"),
    "C18": dict(
        technique="TLA+ denotations of the filter criteria, the duplicate scan and the reverse popping, grouping, and an "
                  "entry-path decision table; TLC-enumerated (list, operation) cases replayed on real containers; TLC trace "
                  "validation of every observed result",
        text="TLC checks for every list up to 3 elements (repeated instances, equal TRS, error/undefined components, "
             "parsed/unparsed) x every filter / filter_errors / filter_duplicates operation x drop that the modelled scan "
             "equals the denotation and selected + rest is an order-preserving partition (two injected faults are caught); "
             "each case and random lists of 2..8 elements are executed on TractList / TRSList / PLSSDesc, group_by / "
             "group_by_nested / unpack_group on 1..3 attributes, and 8 entry paths x 2 containers x 10 element kinds alone "
             "and mixed; TLC compares selected / remaining / grouped elements with the denotation and applies the decision "
             "table 'all acceptable => every element stored, converted, in order; otherwise TypeError'. A second model "
             "(ContainerSM) treats the container as a mutable sequence under sequences of calls (append, extend, +=, +, "
             "reflected +, *=, *, insert, pop, __setitem__, reverse, copy, to_standard_list, slicing, filter, ==) with a derived "
             "container and a handed-out plain list: TLC checks atomicity of refused calls, independence of the three lists "
             "and the entry clauses (three injected faults are caught), behaviours of one call (thorough: two), TLC-simulated "
             "behaviours of 8 calls and random histories are executed and every call is validated as one record (lists "
             "before, call, lists after, exception, returned value).",
        note="Trusted: construction of elements from abstract shapes, identity-based position reporting (repeated instances "
             "share a representative). Group order in the returned dict is not claimed. A dict passed to from_multiple is "
             "an iterable of its keys and is not generated (R3).",
        design_ref="§5.11, §6 C18"),
    "C19": dict(
        technique="TLA+ model of the output file as a row sequence under tracts_to_csv / TractWriter operations, checked "
                  "by TLC with two injected faults; every bounded history replayed against real files; each call validated "
                  "by the trace specification (rows re-read = model rows, return values, cells); record forms checked per call",
        text="TLC explores every history of csv-append/overwrite, writer construction, write(desc | None), close, re-open on a "
             "new or existing file and checks header-only-first, rows of a call = its tracts in order, re-opening loses nothing; "
             "each history is executed with random attribute subsets/orders (all 27 documented attributes regularly, unknown "
             "names), 4 header options and optional UIDs; after every call the file is re-read with csv.reader, rows are "
             "identified and compared with the model's row sequence, write() counts, the RuntimeError on a closed writer and "
             "the TypeError of a write() that holds a foreign object (which must leave the file as it was) "
             "are checked, and every cell is compared with the tract attribute; tracts_to_dict / _list / iter forms: one "
             "record per tract, in order, keys as requested, values equal attributes, unknown name => '<name>: n/a'.",
        note="Trusted: row identification by (trs, desc) cells and the leaf-in-order cell comparison done in Python "
             "(separator not asserted). Two probe descriptions.",
        design_ref="§5.12, §6 C19"),
    "C06": dict(
        technique="TLA+ grammar of elements/separators with a model of the two-stage extraction (which descriptions are "
                  "compositional), enumerated by TLC; every description parsed whole and element by element; TLC trace "
                  "validation whole = concatenation of parts + side conditions, and every aliquot-chain element's own yield "
                  "validated against spec/Aliquot.tla (tiling + depth clauses) under the case's depth settings; model "
                  "prediction bound as drift",
        text="TLC enumerates every sequence of up to 3-4 elements (single lot, lot range, lot list, lot with acreage, aliquot "
             "of lots, aliquot chain, ALL) x separators (comma, semicolon, line break) x suppress_lot_divs and checks that "
             "punctuation separates elements and that every non-compositional case is one of two named deviations; each case "
             "and random sequences up to 8 elements are rendered with random numbers / spellings and parsed as a whole and "
             "element by element; TLC checks lots and aliquots of the whole = concatenation of the parts, lots_qqs = lots + "
             "qqs, ilots mirror lots, division prefix rule, acreage attribution, dup_lot / dup_qq present iff a repeat exists, "
             "and that the extraction model predicts exactly which descriptions are compositional (drift). What an aliquot-chain "
             "element (1-4 components) yields on its own is not taken on the library's word: its pieces are a second trace "
             "(spec/AliquotTrace.tla) judged by the C02 clauses of spec/Aliquot.tla under the case's depth settings (12 "
             "settings, incl. qq_depth_max x break_halves), and a lot element must yield exactly the lot numbers written in it (lots_ok), so a whole and its parts that are wrong "
             "alike are reported. Failures are "
             "attributed to the open findings F10 / F12 only counterfactually (trigger present and neutralising it makes the "
             "property hold).",
        note="Known findings F10 (line break after an aliquot chain fuses) and F12 (ALL counts only when last) are listed in "
             "known_findings.json. Conflicting acreages for one lot are outside the claim (R3).",
        design_ref="§5.4, §6 C06"),
    "C07": dict(
        technique="TLA+ grammar of spelling classes / joiners with the bare-quarter recognition rule, enumerated by TLC; "
                  "each written chain rendered and compared with its canonical symbol text; TLC trace validation of normal "
                  "form, result equality, fixed point and the bare-quarter rule (model bound as drift)",
        text="TLC enumerates every sequence of (half | quarter) x spelling class (symbol, /2, bare 2, 1/2, word, word + "
             "fraction, 'One Half', bare quarter) x joiner (none, blank, of, of the) x clean_qq respecting the glue rule; each is "
             "rendered with a random concrete spelling per class and distinct directions; TLC checks on the observation: "
             "normalised text = the canonical symbols, lots / aliquots / whole aliquots identical to the canonical spelling "
             "under 5 configurations, normalising and parsing the normalised text changes nothing, a bare quarter is an "
             "aliquot only under clean_qq or after a half; the model's exact prediction for bare quarters is bound as drift.",
        note="Trusted: the spelling tables in harness/drivers/c07.py. Chains of up to 3 components (all 1-2 component "
             "writings, a sample of the 3-component ones in the quick tier).",
        design_ref="§5.5, §6 C07"),
    "C08": dict(
        technique="TLA+ model of written Twp/Rge forms (template class, numbers, present/absent directions), defaults and "
                  "their source, enumerated by TLC; each form rendered and parsed; TLC trace validation of the preprocessed "
                  "text, find_twprge, tracts and warnings against Meaning(form, defaults); TLA+ model of the six "
                  "preprocessing passes over descriptions with several Twp/Rges (spec/Preprocess.tla), its behaviours "
                  "replayed and the preprocessed text validated atom by atom",
        text="TLC enumerates every readable written form x default directions x source (config text, parse keyword, "
             "MasterConfig, unset) x ocr_scrub and checks that an explicit direction is kept, a missing one is the default, and "
             "the result equals that of the fully written form; each case (and pairs of Twp/Rges in one description, 40% of "
             "them denoting the same Twp/Rge) is rendered with a random concrete spelling, OCR look-alikes substituted when "
             "ocr_scrub is on, and parsed; TLC checks that the Twp/Rges read off the preprocessed text, find_twprge(..., "
             "preprocess=True) and the tracts all equal the expected meaning in reading order, the preprocessed text holds no "
             "Twp/Rge in another spelling, every form with a missing direction is named by a fixed_twprge warning on the "
             "description and its tracts, and the tracts equal those of the fully written text. spec/Preprocess.tla runs the six "
             "scrubbing patterns and the whitespace reduction pass by pass over atom sequences (1-3 Twp/Rge occurrences x "
             "trailing punctuation x Principal Meridian wording x defaults), TLC checks AllCanonical / NoResidue / FixedPoint "
             "and that the pinned tree's replace-all behaviour (finding F14) breaks them; every emitted description is parsed, "
             "pp_desc is lexed back into atoms and compared with the model (drift) and with the C08 clauses (verdict).",
        note="Trusted: spelling templates in harness/drivers/c08.py and the 40-line lexer impl.pp_lex. Documented exceptions excluded: range 2 without the R "
             "word; OCR needs the T word, both directions and a range other than a lone 2; a missing direction needs the T "
             "and R words.",
        design_ref="§5.5, §6 C08"),
}

NOT_APPLICABLE = {
    "C16": "wall-clock growth of CPython's regex engine is not a state-transition property a TLA+ specification of pyTRS "
           "can express (the specs abstract text to tokens and have no cost model); see DESIGN.md §7",
}

PENDING_REASON = "check not built yet in this round of work; specification planned in DESIGN.md §5 (will be claimed once its driver exists)"


def main():
    props = [json.loads(l)["id"] for l in open(os.path.join(HERE, "properties.jsonl"))]
    checks = []
    for pid in props:
        if pid not in CLAIMED:
            continue
        c = CLAIMED[pid]
        checks.append({
            "property_id": pid,
            "quick_cmd": "./check %s --tier quick" % pid,
            "thorough_cmd": "./check %s --tier thorough" % pid,
            "evidence_file": "/verif/evidence/%s.json" % pid,
            "replay_cmd_template": "./check %s --replay {path}" % pid,
            "engine": "tlc+harness",
            "level_claimed": {"category": "model_checking", "text": c["text"], "design_ref": c["design_ref"]},
            "level_note": c["note"],
            "technique": c["technique"],
        })
    na = []
    for pid in props:
        if pid in CLAIMED:
            continue
        na.append({"property_id": pid, "reason": NOT_APPLICABLE.get(pid, PENDING_REASON)})
    hooks_commits = []
    hp = os.path.join(HERE, "hooks_commits.txt")
    if os.path.exists(hp):
        hooks_commits = [l.strip() for l in open(hp) if l.strip()]
    man = {
        "version": 1,
        "setup_cmd": "./setup.sh",
        "hooks": {
            "guard": "PYTRS_VERIF",
            "enable": "PYTRS_VERIF=1 in the environment of the worker processes that import pytrs from /repo "
                      "(nothing is compiled; the checks import the working tree at run time); "
                      "PYTRS_VERIF_TRACE=<file> receives NDJSON events",
            "baseline_off_cmd": "cd /repo && env -u PYTRS_VERIF -u PYTRS_VERIF_TRACE /venv/bin/python -m pytest -ra -q "
                                "-p no:cacheprovider --timeout=900 --continue-on-collection-errors",
            "source_commits": hooks_commits,
            "add_only": True,
        },
        "engines": [{
            "name": "tlc+harness",
            "path": "/verif/check",
            "serves_properties": sorted(CLAIMED),
            "kind_free_text": "TLA+ specifications under /verif/spec checked with TLC 1.8 (exhaustive within stated bounds, "
                              "fault-injection configs, -coverage vacuity guard); TLC-emitted cases replayed into pyTRS imported "
                              "from /repo's working tree; observations recorded from pyTRS validated by TLC against trace "
                              "specifications that EXTEND the property modules",
        }],
        "checks": checks,
        "not_applicable": na,
        "notes": "Exit 0 = held; exit 1 + VIOLATION line = property false on an observation of the real code; exit 2 = machinery "
                 "failure (never a verdict). DRIFT lines (model != code without falsifying the property) do not change the exit "
                 "status. Known findings: /verif/known_findings.json.",
    }
    with open(os.path.join(HERE, "MANIFEST.json"), "w") as f:
        json.dump(man, f, indent=1)
        f.write("\n")


if __name__ == "__main__":
    main()
