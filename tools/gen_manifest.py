#!/usr/bin/env python3
"""Regenerates /verif/MANIFEST.json from the table below (keeps it valid while
the framework grows).  Usage: python3 tools/gen_manifest.py"""
import json
import os

HERE = os.path.dirname(os.path.dirname(os.path.abspath(__file__)))

CLAIMED = {
    "C02": dict(
        technique="TLA+ model of parse_aliquot checked by TLC (exhaustive over chains) + every model case replayed "
                  "into pytrs.Tract + TLC trace validation of the observed pieces against the TLA+ tiling predicate",
        text="TLC proves the transcription of parse_aliquot (spec/Aliquot.tla) tiles Region(chain, dmax) with correct depths "
             "for every chain up to the bound x all depth settings; every such case and thousands of longer random chains are "
             "run through the real Tract API (4 setting channels) and TLC evaluates the same Tiles/DepthOK predicate on each "
             "observed result, so the verdict never depends on the model being faithful, only the exhaustiveness claim does.",
        note="Trusted: TLC, the symbol rendering table (N -> 'N½'), the label tokenizer ('N2SWNE' -> N2,SW,NE). "
             "Text spelling variants are C07's business. Chains beyond length 7 and depths beyond 6 are not explored.",
        design_ref="§5.3, §6 C02"),
    "C05": dict(
        technique="PlusCal/TLA+ transcription of the right-to-left unpacking scan checked against the left-to-right "
                  "denotation by TLC + every list rendered into find_sec/PLSSDesc/Tract + TLC trace validation",
        text="TLC proves scan = Expand (and flag <=> non-ascending range, shift invariance, aliquots_through) for every list "
             "up to 4 written numbers; every such list and thousands of longer random ones are rendered with random documented "
             "connective/keyword spellings and run through find_sec, PLSSDesc (one tract per section, shared description, "
             "warning on every tract) and Tract (lots, ilots); TLC evaluates obs = Expand(input) and descending => warning "
             "on each observation.",
        note="Trusted: the spelling tables in harness/drivers/c05.py. Chained ranges (a - b - c) and equal end points are "
             "outside the claim (drift only). Numbers 1..99 / 1..999.",
        design_ref="§5.2, §6 C05"),
    "C12": dict(
        technique="TLA+ recogniser/Canon/Decompose + encoding and single-edit models enumerated by TLC, each terminal state "
                  "replayed into TRS/Tract/trs_to_dict, TLC trace validation of every observation",
        text="TLC enumerates every combination of component encodings (int, digit string, with lower/upper direction letter, "
             "None, '', junk, placeholders, out-of-range) x defaults and every single-character insertion/deletion/substitution "
             "of every canonical base string, checks the design invariants (round trip, idempotence, strictness, other "
             "components kept) and emits each as a test; the harness runs them through 4 build and 4 string channels and TLC "
             "evaluates canonical-form, strictness (no different valid-looking TRS), attribute decomposition, idempotence and "
             "equality on each observation, plus random numbers 0..999 and multi-edit strings.",
        note="Weaker readings (R3): upper-case direction letters count as standard form; a non-standard string must carry an "
             "error placeholder ('154n97w' -> '154n97wXX' accepted). Negative ints, non-ASCII digits and strings with "
             "surrounding blanks as *components* are outside the stated quantifier.",
        design_ref="§5.6, §6 C12"),
    "C17": dict(
        technique="TLA+ denotation of the documented orders + model of _sort_custom's integer keys, exhaustive TLC check on "
                  "small lists, cases replayed on real Tract/TRS containers, TLC trace validation of every observed order",
        text="TLC checks for every list up to 3 elements over valid/error/undefined components and every legal key (incl. "
             ".rev, two keys) that successive stable passes on the code's integer keys (north negative, max+1 for missing "
             "numbers) give exactly the documented multi-key order, a permutation with invalid components last; every such "
             "case, 45 illegal-key cases and thousands of random lists (2..8 elements, 1..3 keys, rendered key spellings) are "
             "executed on TractList/TRSList/PLSSDesc.sort_tracts and TLC compares each observed order with Sort(list, keys).",
        note="Trusted: construction of Tract/TRS objects from abstract shapes; identity of elements by id(). Township/range "
             "0 and partially interpreted keys ('t.foo') are outside the claim.",
        design_ref="§5.10, §6 C17"),
    "C01": dict(
        technique="TLA+ grammar of the four documented layouts as a transition system with a denotation, enumerated by "
                  "TLC; every document shape rendered with random documented spellings and parsed; TLC trace validation "
                  "of tracts, layout, error flags and the pretty_desc round trip against Denotation",
        text="TLC enumerates every document shape (layout x Twp/Rge groups x section groups x single/and/range/mixed list) "
             "within the bound and checks the denotation's shape; each shape is rendered several times (Twp/Rge and Section "
             "spellings, separators, connectors, numbers, blocks incl. lots, aliquots, prose, trailing periods) and parsed "
             "with default settings; TLC evaluates on each observation: deduced layout = written layout, tracts = "
             "Denotation(doc) in order with the block verbatim, no error flag, and PLSSDesc(pretty_desc()) gives the same "
             "tracts (descriptions modulo white-space runs).",
        note="Trusted: the rendering vocabularies and layout templates (harness/render.py, harness/plssdoc.py). Blocks do "
             "not end in a word the library culls on purpose (of/the/in/and) and 'ALL' is not placed before ' of <Twp/Rge>' "
             "(the guide's false-match rule). Bounds: <= 3 Twp/Rge groups x <= 3 section groups.",
        design_ref="§5.1, §6 C01"),
    "C20": dict(
        technique="document shapes enumerated by TLC from the PlssDoc grammar, rendered and parsed in pairs (default vs "
                  "mode); TLC trace validation of the relations between the two observations",
        text="For document shapes enumerated from spec/PlssDoc.tla the harness parses each rendered text with and without "
             "the optional mode and TLC checks the relation the property states: segment = same tracts; all sections with "
             "colon => cautious/required = same tracts; no colon => cautious = same tracts plus a pulled_sec_without_colon "
             "warning on description and tracts, required = exactly one tract holding the whole preprocessed text; "
             "sec_within on (leading text, section list, trailing text) x 4 Twp/Rge placements => one tract per section "
             "described by leading + trailing text with a sec_within warning each.",
        note="Colon clauses are claimed for TRS_desc and S_desc_TR (the layouts whose documented rendering has a colon). "
             "Trusted: rendering tables; (trs, desc) pairs compared exactly.",
        design_ref="§6 C20"),
}

NOT_APPLICABLE = {
    "C16": "wall-clock growth of CPython's regex engine is not a state-transition property a TLA+ specification of pyTRS "
           "can express (the specs abstract text to tokens and have no cost model); see DESIGN.md §7",
}

PENDING_REASON = "check not built yet in this round of work; specification planned in DESIGN.md §5 (will be claimed once its driver exists)"


def main():
    props = [json.loads(l)["id"] for l in open(os.path.join(HERE, "properties.jsonl"))]
    checks = []
    for pid in props:
        if pid not in CLAIMED:
            continue
        c = CLAIMED[pid]
        checks.append({
            "property_id": pid,
            "quick_cmd": "./check %s --tier quick" % pid,
            "thorough_cmd": "./check %s --tier thorough" % pid,
            "evidence_file": "/verif/evidence/%s.json" % pid,
            "replay_cmd_template": "./check %s --replay {path}" % pid,
            "engine": "tlc+harness",
            "level_claimed": {"category": "model_checking", "text": c["text"], "design_ref": c["design_ref"]},
            "level_note": c["note"],
            "technique": c["technique"],
        })
    na = []
    for pid in props:
        if pid in CLAIMED:
            continue
        na.append({"property_id": pid, "reason": NOT_APPLICABLE.get(pid, PENDING_REASON)})
    hooks_commits = []
    hp = os.path.join(HERE, "hooks_commits.txt")
    if os.path.exists(hp):
        hooks_commits = [l.strip() for l in open(hp) if l.strip()]
    man = {
        "version": 1,
        "setup_cmd": "./setup.sh",
        "hooks": {
            "guard": "PYTRS_VERIF",
            "enable": "PYTRS_VERIF=1 in the environment of the worker processes that import pytrs from /repo "
                      "(nothing is compiled; the checks import the working tree at run time); "
                      "PYTRS_VERIF_TRACE=<file> receives NDJSON events",
            "baseline_off_cmd": "cd /repo && env -u PYTRS_VERIF -u PYTRS_VERIF_TRACE /venv/bin/python -m pytest -ra -q "
                                "-p no:cacheprovider --timeout=900 --continue-on-collection-errors",
            "source_commits": hooks_commits,
            "add_only": True,
        },
        "engines": [{
            "name": "tlc+harness",
            "path": "/verif/check",
            "serves_properties": sorted(CLAIMED),
            "kind_free_text": "TLA+ specifications under /verif/spec checked with TLC 1.8 (exhaustive within stated bounds, "
                              "fault-injection configs, -coverage vacuity guard); TLC-emitted cases replayed into pyTRS imported "
                              "from /repo's working tree; observations recorded from pyTRS validated by TLC against trace "
                              "specifications that EXTEND the property modules",
        }],
        "checks": checks,
        "not_applicable": na,
        "notes": "Exit 0 = held; exit 1 + VIOLATION line = property false on an observation of the real code; exit 2 = machinery "
                 "failure (never a verdict). DRIFT lines (model != code without falsifying the property) do not change the exit "
                 "status. Known findings: /verif/known_findings.json.",
    }
    with open(os.path.join(HERE, "MANIFEST.json"), "w") as f:
        json.dump(man, f, indent=1)
        f.write("\n")


if __name__ == "__main__":
    main()
