#!/bin/sh
# tools/take_mutant.sh <name> <src MUTANT dir> : verify a seeded change in a scratch worktree and keep it under seeded/<name>
name="$1"; src="$2"
dst=/verif/seeded/$name
wt=/tmp/wt/verify_$name
set -e
mkdir -p "$dst"
cp "$src/patch.diff" "$src/demo.py" "$src/meta.json" "$dst/"
git -C /repo worktree add -q --detach "$wt" HEAD
cd "$wt"
PYTHONPATH="$wt" /venv/bin/python "$dst/demo.py" >/dev/null 2>&1 && base=0 || base=$?
git apply "$dst/patch.diff"
tests=$(PYTHONPATH="$wt" /venv/bin/python -m pytest -q -p no:cacheprovider 2>&1 | tail -1)
PYTHONPATH="$wt" /venv/bin/python "$dst/demo.py" >/dev/null 2>&1 && mut=0 || mut=$?
cd /
git -C /repo worktree remove --force "$wt"
echo "$name: demo on clean tree exit=$base; with patch: tests='$tests' demo exit=$mut"
python3 - "$dst" "$base" "$mut" "$tests" <<'PY'
import json,sys,subprocess
d,base,mut,tests=sys.argv[1:5]
m=json.load(open(d+'/meta.json'))
m['verified']={'repo_head':subprocess.run(['git','-C','/repo','rev-parse','--short','HEAD'],capture_output=True,text=True).stdout.strip(),
 'demo_exit_clean':int(base),'demo_exit_patched':int(mut),'tests_patched':tests,
 'ran':['git worktree add (scratch)','demo.py on clean tree','git apply patch.diff','pytest -q (full suite)','demo.py with patch','git worktree remove']}
json.dump(m,open(d+'/meta.json','w'),indent=1)
PY
