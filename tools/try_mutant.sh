#!/bin/sh
# tools/try_mutant.sh <seeded name> <check id> [tier] : apply a seeded change to /repo, run a check, undo.
name="$1"; chk="$2"; tier="${3:-quick}"
git -C /repo diff --quiet || { echo "/repo not clean"; exit 2; }
git -C /repo apply /verif/seeded/$name/patch.diff || exit 2
mkdir -p /tmp/ev_backup; cp /verif/evidence/$chk.json /tmp/ev_backup/ 2>/dev/null
cd /verif && ./check $chk --tier $tier > /tmp/try_$name.$chk.log 2>&1; rc=$?
git -C /repo checkout -- .
cp /tmp/ev_backup/$chk.json /verif/evidence/ 2>/dev/null
echo "$name vs $chk ($tier): exit=$rc  $(grep -c '^VIOLATION' /tmp/try_$name.$chk.log) VIOLATION lines; $(tail -1 /tmp/try_$name.$chk.log)"
