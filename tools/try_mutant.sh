#!/bin/sh
# tools/try_mutant.sh <seeded name> <check id> [tier] : run a check against a seeded change.
# The change is applied to a scratch copy of /repo's working tree (PYTRS_REPO points the check at it), so /repo
# itself is never touched and several of these can run side by side.  (Equivalent to: git -C /repo apply <patch>;
# ./check ...; git -C /repo checkout -- .)
# VERIF_ROOT=<copy of /verif> runs the check from a snapshot (so /verif can be edited meanwhile); the patch is always
# taken from /verif/seeded.
name="$1"; chk="$2"; tier="${3:-quick}"; root="${VERIF_ROOT:-/verif}"
w=$(mktemp -d /tmp/mut_XXXXXX)
cp -r /repo/pytrs "$w/" && git -C "$w" init -q 2>/dev/null
(cd "$w" && git apply /verif/seeded/$name/patch.diff) || { echo "$name: patch does not apply"; rm -rf "$w"; exit 2; }
mkdir -p /tmp/ev_backup; cp $root/evidence/$chk.json /tmp/ev_backup/$chk.$$.json 2>/dev/null
cd $root && PYTRS_REPO="$w" ./check $chk --tier $tier > /tmp/try_$name.$chk.log 2>&1; rc=$?
cp /tmp/ev_backup/$chk.$$.json $root/evidence/$chk.json 2>/dev/null; rm -f /tmp/ev_backup/$chk.$$.json
rm -rf "$w"
echo "$name vs $chk ($tier): exit=$rc  $(grep -c '^VIOLATION' /tmp/try_$name.$chk.log) VIOLATION lines; $(tail -1 /tmp/try_$name.$chk.log)"
