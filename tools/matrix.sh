#!/bin/sh
# tools/matrix.sh [names...] : every seeded change against the check of its own property (quick tier)
cd /verif/seeded || exit 2
names="${*:-$(ls)}"
for n in $names; do
  chk=$(python3 -c "import json;print(json.load(open('/verif/seeded/$n/meta.json'))['property'])")
  /verif/tools/try_mutant.sh $n $chk quick
done
