"""Run TLC on the specifications under /verif/spec and read its output back.

Everything TLC writes (metadir, unpacked standard modules) goes to a scratch
directory that the caller owns and removes.
"""
import json
import os
import re
import shutil
import subprocess
import sys
import tempfile
import time

VERIF = os.path.dirname(os.path.dirname(os.path.abspath(__file__)))
SPEC_DIR = os.path.join(VERIF, "spec")
JAR = "/opt/veriftools/tla/tla2tools.jar:/opt/veriftools/tla/CommunityModules-deps.jar"


MAX_CASES = 600000


class TLCError(Exception):
    """TLC could not be run or the specification is broken (machinery failure)."""


class TLCResult:
    def __init__(self):
        self.stdout = ""
        self.returncode = None
        self.generated = 0
        self.distinct = 0
        self.depth = 0
        self.violated = None       # name of a violated invariant / property
        self.cases = []            # parsed <<"CASE", json>> payloads
        self.fails = []            # parsed <<"FAIL", ...>> tuples
        self.infos = []            # parsed <<"INFO", ...>> tuples
        self.wall_s = 0.0
        self.coverage = {}         # action name -> count (when -coverage)
        self.error_text = ""
        self.postcondition_failed = False

    @property
    def ok(self):
        return self.returncode == 0 and self.violated is None


def tla_value(v):
    """Render a Python value as a TLA+ constant expression for a cfg file."""
    if isinstance(v, bool):
        return "TRUE" if v else "FALSE"
    if isinstance(v, int):
        return str(v)
    if isinstance(v, str):
        return json.dumps(v)
    if isinstance(v, (set, frozenset)):
        return "{" + ", ".join(tla_value(x) for x in sorted(v, key=repr)) + "}"
    if isinstance(v, (list, tuple)):
        return "<<" + ", ".join(tla_value(x) for x in v) + ">>"
    raise TypeError(v)


def write_cfg(path, spec="Spec", constants=None, invariants=(), properties=(),
              constraints=(), action_constraints=(), postcondition=None, view=None,
              init=None, next_=None, deadlock=False):
    lines = []
    if init:
        lines += ["INIT %s" % init, "NEXT %s" % next_]
    else:
        lines.append("SPECIFICATION %s" % spec)
    if constants:
        lines.append("CONSTANTS")
        for k, v in constants.items():
            lines.append("  %s = %s" % (k, tla_value(v)))
    for inv in invariants:
        lines.append("INVARIANT %s" % inv)
    for p in properties:
        lines.append("PROPERTY %s" % p)
    for c in constraints:
        lines.append("CONSTRAINT %s" % c)
    for c in action_constraints:
        lines.append("ACTION_CONSTRAINT %s" % c)
    if postcondition:
        lines.append("POSTCONDITION %s" % postcondition)
    if view:
        lines.append("VIEW %s" % view)
    lines.append("CHECK_DEADLOCK %s" % ("TRUE" if deadlock else "FALSE"))
    with open(path, "w") as f:
        f.write("\n".join(lines) + "\n")


_TUPLE_RE = re.compile(r'^<<"(CASE|FAIL|INFO)", (.*)>>\s*$')


def _parse_tla_tuple_rest(rest):
    """Parse the remainder of a printed TLA+ tuple made of strings / ints /
    booleans into a Python list.  (Only what our specs print.)"""
    out = []
    i, n = 0, len(rest)
    while i < n:
        c = rest[i]
        if c in " ,":
            i += 1
            continue
        if c == '"':
            j = i + 1
            buf = []
            while j < n and rest[j] != '"':
                if rest[j] == "\\" and j + 1 < n:
                    buf.append(rest[j:j + 2])
                    j += 2
                else:
                    buf.append(rest[j])
                    j += 1
            raw = "".join(buf)
            try:
                out.append(json.loads('"' + raw + '"'))
            except ValueError:
                out.append(raw)
            i = j + 1
            continue
        j = i
        while j < n and rest[j] not in ",":
            j += 1
        tok = rest[i:j].strip()
        if tok == "TRUE":
            out.append(True)
        elif tok == "FALSE":
            out.append(False)
        else:
            try:
                out.append(int(tok))
            except ValueError:
                out.append(tok)
        i = j
    return out


def _cpu_seconds(pid):
    """user + system CPU time of a process (all its threads), None when it cannot be read"""
    try:
        with open("/proc/%d/stat" % pid) as f:
            parts = f.read().rsplit(")", 1)[1].split()
        return (int(parts[11]) + int(parts[12])) / float(os.sysconf("SC_CLK_TCK"))
    except Exception:  # noqa
        return None


def run_tlc(module, cfg_path, scratch, workers=16, env_extra=None, timeout=3600,
            coverage=False, simulate=None, depth=None, seed=None, heap="8g",
            extra_args=()):
    """Run TLC on /verif/spec/<module>.tla with the given cfg.  Returns TLCResult.
    A non-zero TLC exit that is not an invariant/property violation raises
    TLCError."""
    meta = tempfile.mkdtemp(prefix="meta_", dir=scratch)
    tmpd = os.path.join(scratch, "jtmp")
    os.makedirs(tmpd, exist_ok=True)
    cmd = ["java", "-XX:+UseParallelGC", "-Xmx" + heap, "-Xss64m",
           "-Djava.io.tmpdir=" + tmpd, "-cp", JAR, "tlc2.TLC",
           "-workers", str(workers), "-metadir", meta, "-noGenerateSpecTE",
           "-config", cfg_path]
    if coverage:
        cmd += ["-coverage", "1"]
    if simulate:
        cmd += ["-simulate", simulate]
    if depth:
        cmd += ["-depth", str(depth)]
    if seed is not None:
        cmd += ["-seed", str(seed)]
    cmd += list(extra_args)
    cmd.append(os.path.join(SPEC_DIR, module + ".tla"))
    env = dict(os.environ)
    env.pop("JAVA_TOOL_OPTIONS", None)
    if env_extra:
        env.update({k: str(v) for k, v in env_extra.items()})
    t0 = time.time()
    outpath = tempfile.mktemp(prefix="tlcout_", suffix=".txt", dir=scratch)
    # TLC 1.8 has been seen to hang with all workers blocked in DiskStateQueue (its StatePoolWriter thread gone) when the
    # machine is oversubscribed.  A run that burns no CPU for two minutes is killed and started again (at most twice).
    for attempt in range(3):
        hung = False
        try:
            with open(outpath, "w") as outf:
                proc = subprocess.Popen(cmd, cwd=SPEC_DIR, env=env, stdout=outf, stderr=subprocess.STDOUT)
                samples = []
                while True:
                    try:
                        proc.wait(timeout=10)
                        break
                    except subprocess.TimeoutExpired:
                        pass
                    now = time.time()
                    if now - t0 > timeout:
                        proc.kill()
                        proc.wait()
                        raise TLCError("TLC timed out after %ss on %s" % (timeout, module))
                    samples.append((now, _cpu_seconds(proc.pid)))
                    samples = [x for x in samples if now - x[0] <= 130]
                    if samples[0][1] is not None and samples[-1][1] is not None and samples[-1][0] - samples[0][0] >= 120 \
                            and samples[-1][1] - samples[0][1] < 3.0:
                        hung = True
                        proc.kill()
                        proc.wait()
                        break
        finally:
            shutil.rmtree(meta, ignore_errors=True)
        if not hung:
            break
        if attempt == 2:
            raise TLCError("TLC hung three times on %s" % module)
        sys.stderr.write("harness: TLC made no progress on %s for two minutes; run again (attempt %d)\n" % (module, attempt + 2))
        meta = tempfile.mkdtemp(prefix="meta_", dir=scratch)
        cmd[cmd.index("-metadir") + 1] = meta
    res = TLCResult()
    res.wall_s = time.time() - t0
    res.returncode = proc.returncode
    tail = []
    errs = []
    ncase = 0
    with open(outpath, errors="replace") as outf:
        for line in outf:
            line = line.rstrip("\n")
            m = _TUPLE_RE.match(line)
            if m:
                kind, rest = m.group(1), m.group(2)
                vals = _parse_tla_tuple_rest(rest)
                if kind == "CASE":
                    ncase += 1
                    if ncase > MAX_CASES:
                        raise TLCError("more than %d CASE lines from %s: the emission bound is too large" % (MAX_CASES, module))
                    try:
                        res.cases.append(json.loads(vals[0]))
                    except (ValueError, IndexError, TypeError) as e:
                        raise TLCError("unparsable CASE line: %r" % line[:200]) from e
                elif kind == "FAIL":
                    res.fails.append(vals)
                else:
                    res.infos.append(vals)
                continue
            tail.append(line)
            if len(errs) < 12 and (line.startswith("Error:") or "evaluat" in line or "Attempted" in line or errs and len(errs) < 6):
                errs.append(line[:300])
            if len(tail) > 120:
                del tail[:60]
            m = re.match(r"^(\d+) states generated, (\d+) distinct states found", line)
            if m:
                res.generated = int(m.group(1))
                res.distinct = int(m.group(2))
                continue
            m = re.match(r"^The depth of the complete state graph search is (\d+)", line)
            if m:
                res.depth = int(m.group(1))
                continue
            m = re.match(r"^Error: Invariant (\S+) is violated", line)
            if m:
                res.violated = m.group(1)
                continue
            m = re.match(r"^Error: Action property (\S+) is violated", line)
            if m:
                res.violated = m.group(1)
                continue
            if "Temporal properties were violated" in line:
                res.violated = res.violated or "temporal"
                continue
            if "Deadlock reached" in line:
                res.violated = res.violated or "deadlock"
                continue
            if re.search(r"[Pp]ost-?condition", line) and ("violated" in line or "false" in line.lower()):
                res.postcondition_failed = True
                continue
            m = re.match(r"^<(\w+) line \d+, col \d+ to line \d+, col \d+ of module \w+(?: \([\d ]+\))?>: (\d+):(\d+)", line)
            if m:
                res.coverage[m.group(1)] = res.coverage.get(m.group(1), 0) + int(m.group(3))
    os.unlink(outpath)
    res.stdout = "\n".join(tail)
    if res.returncode != 0 and res.violated is None and not res.postcondition_failed:
        res.error_text = "\n".join(errs + ["..."] + tail[-12:])
        raise TLCError("TLC failed on %s (exit %s):\n%s" % (module, res.returncode, res.error_text))
    return res


def sany(module):
    cmd = ["java", "-cp", JAR, "tla2sany.SANY", os.path.join(SPEC_DIR, module + ".tla")]
    proc = subprocess.run(cmd, cwd=SPEC_DIR, stdout=subprocess.PIPE, stderr=subprocess.STDOUT, text=True)
    ok = proc.returncode == 0 and "Semantic error" not in proc.stdout and "***Parse Error***" not in proc.stdout \
        and "Fatal errors" not in proc.stdout
    return ok, proc.stdout
