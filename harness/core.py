"""Common machinery of the checks: scratch space, TLC runs, the pool of
implementation workers, trace validation in batches, known findings, replay
files, evidence files, exit codes."""
import concurrent.futures as cf
import hashlib
import json
import multiprocessing as mp
import os
import random
import json
import shutil
import sys
import tempfile
import time
import traceback

from . import tlc

VERIF = tlc.VERIF
EVIDENCE_DIR = os.path.join(VERIF, "evidence")
REPLAY_DIR = os.path.join(VERIF, "replays")
FINDINGS_FILE = os.path.join(VERIF, "known_findings.json")
NCPU = min(16, os.cpu_count() or 4)


class MachineryFailure(Exception):
    pass


def repo_root():
    return os.environ.get("PYTRS_REPO", "/repo")


# ---------------------------------------------------------------------------
# implementation workers

def _worker_init(repo):
    os.environ["PYTHONDONTWRITEBYTECODE"] = "1"
    sys.dont_write_bytecode = True
    if repo not in sys.path:
        sys.path.insert(0, repo)
    os.environ["PYTRS_VERIF"] = "1"
    import pytrs  # noqa: F401  (import from the working tree under test)
    loc = os.path.realpath(os.path.dirname(os.path.dirname(pytrs.__file__)))
    if loc != os.path.realpath(repo):
        raise RuntimeError("pytrs imported from %s, expected %s" % (loc, repo))


def _worker_call(item):
    from . import impl
    fn_name, cases = item
    fn = getattr(impl, fn_name)
    out = []
    for case in cases:
        try:
            out.append((case.get("id"), fn(case), None))
        except BaseException as e:  # harness-side bug, not an implementation exception
            out.append((case.get("id"), None,
                        "%s: %s\n%s" % (type(e).__name__, e, traceback.format_exc())))
    return out


class Ctx:
    """One invocation of one check."""

    def __init__(self, prop, tier, seed, level="model_checking"):
        self.prop = prop
        self.tier = tier
        self.seed = seed
        self.level = level
        self.t0 = time.time()
        self.scratch = tempfile.mkdtemp(prefix="pytrs_verif_%s_" % prop)
        self.rng = random.Random(seed)
        self.states = 0
        self.transitions = 0
        self.tlc_runs = []
        self.impl_cases = 0
        self.records_validated = 0
        self.nontrivial = set()
        self.samples = []
        self.violations = []      # dicts
        self.known_hits = {}      # finding id -> count
        self.drift = 0
        self.drift_samples = []
        self.timeouts = 0
        self.assumptions = []
        self.notes = {}
        self.rule = ""
        self.exhaustive = False
        self.actions_covered = {}
        self._pool = None
        self.findings = load_findings()
        self.last_drift_details = []
        # binding self-test (selftest/binding.sh): corrupt one field of a share of the records before TLC sees them
        self.bind_rate = float(os.environ.get("VERIF_BINDING", "0") or 0)
        self.bind_rng = random.Random(seed + 977)
        self.bind_corrupted = {}
        self.bind_rejected = set()

    # -- scratch ----------------------------------------------------------
    def close(self):
        if self._pool is not None:
            self._pool.terminate()
            self._pool = None
        shutil.rmtree(self.scratch, ignore_errors=True)

    def path(self, name):
        return os.path.join(self.scratch, name)

    # -- TLC ---------------------------------------------------------------
    def tlc(self, module, constants=None, invariants=(), properties=(), spec="Spec",
            workers=NCPU, env=None, coverage=False, expect_violation=None,
            constraints=(), postcondition=None, timeout=3600, simulate=None, depth=None,
            count=True, heap="8g", view=None, action_constraints=()):
        cfg = tempfile.mktemp(prefix="%s_" % module, suffix=".cfg", dir=self.scratch)
        tlc.write_cfg(cfg, spec=spec, constants=constants, invariants=invariants,
                      properties=properties, constraints=constraints,
                      postcondition=postcondition, view=view,
                      action_constraints=action_constraints)
        try:
            res = tlc.run_tlc(module, cfg, self.scratch, workers=workers, env_extra=env,
                              coverage=coverage, timeout=timeout, simulate=simulate,
                              depth=depth, seed=self.seed if simulate else None, heap=heap)
        except tlc.TLCError as e:
            raise MachineryFailure(str(e))
        if count:
            self.states += res.distinct
            self.transitions += res.generated
        self.tlc_runs.append({"module": module, "constants": _jsonable(constants),
                              "distinct": res.distinct, "generated": res.generated,
                              "wall_s": round(res.wall_s, 2), "violated": res.violated})
        if coverage:
            for k, v in res.coverage.items():
                self.actions_covered[k] = self.actions_covered.get(k, 0) + v
        if expect_violation is None and res.violated:
            raise MachineryFailure("design model %s violates %s:\n%s" % (
                module, res.violated, "\n".join(res.stdout.splitlines()[-60:])))
        if expect_violation is not None and res.violated is None:
            raise MachineryFailure("fault injection %r in %s was NOT detected by TLC" % (
                expect_violation, module))
        return res

    def require_actions(self, names):
        missing = [n for n in names if self.actions_covered.get(n, 0) == 0]
        if missing:
            raise MachineryFailure("vacuity: actions never taken in the model: %s" % missing)

    # -- implementation ------------------------------------------------------
    def pool(self):
        if self._pool is None:
            ctx = mp.get_context("fork")
            self._pool = ctx.Pool(NCPU, initializer=_worker_init, initargs=(repo_root(),),
                                  maxtasksperchild=None)
        return self._pool

    def impl_map(self, fn_name, cases, chunksize=None, stall_timeout=180):
        """Run impl.<fn_name>(case) for every case in worker processes; returns
        {id: obs}.  A harness-side exception is a machinery failure."""
        cases = list(cases)
        if not cases:
            return {}
        ids = [c.get("id") for c in cases]
        if len(set(ids)) != len(ids):
            dup = sorted(set(i for i in ids if ids.count(i) > 1))[:3] if len(ids) < 5000 else "?"
            raise MachineryFailure("duplicate case ids handed to %s: %s" % (fn_name, dup))
        if chunksize is None:
            chunksize = max(1, min(200, len(cases) // (NCPU * 4) or 1))
        out = {}
        tasks = [(fn_name, cases[i:i + chunksize]) for i in range(0, len(cases), chunksize)]
        it = self.pool().imap_unordered(_worker_call, tasks, 1)
        while True:
            try:
                batch = it.next(timeout=stall_timeout)
            except StopIteration:
                break
            except mp.TimeoutError:
                # some case takes unreasonably long: that is C16's business, not ours
                self._pool.terminate()
                self._pool = None
                self.timeouts += len(cases) - len(out)
                break
            for cid, obs, err in batch:
                if err is not None:
                    raise MachineryFailure("harness worker failed on case %s: %s" % (cid, err))
                out[cid] = obs
        self.impl_cases += len(out)
        return out

    # -- trace validation ---------------------------------------------------
    def validate(self, module, records, constants, invariants=("Verdict", "Drift"),
                 spec="TraceSpec", postcondition="AllConsumed", parallel=NCPU,
                 min_chunk=400, heap="3g", timeout=3600, extra_env=None, count=True):
        """Let TLC evaluate the trace specification on the records.  Returns
        (fails, drifts): fails = list of (id, clause), drifts = list of ids."""
        records = list(records)
        if not records:
            return [], []
        if self.bind_rate:
            records = [self._corrupt(r, (i + 1) / len(records)) for i, r in enumerate(records)]
        nchunks = max(1, min(parallel, len(records) // min_chunk or 1))
        size = (len(records) + nchunks - 1) // nchunks
        chunks = [records[i:i + size] for i in range(0, len(records), size)]

        def one(idx_chunk):
            idx, chunk = idx_chunk
            path = self.path("trace_%s_%d_%d.json" % (module, idx, random.getrandbits(32)))
            with open(path, "w") as f:
                json.dump(chunk, f)
            cfg = path[:-5] + ".cfg"
            tlc.write_cfg(cfg, spec=spec, constants=constants, invariants=invariants,
                          postcondition=postcondition)
            env = {"TRACE_FILE": path}
            if extra_env:
                env.update(extra_env)
            res = tlc.run_tlc(module, cfg, self.scratch, workers=1, env_extra=env,
                              heap=heap, timeout=timeout)
            os.unlink(path)
            if res.violated or res.postcondition_failed or res.returncode != 0:
                raise MachineryFailure("trace validation run of %s broke: violated=%s post=%s\n%s" % (
                    module, res.violated, res.postcondition_failed,
                    "\n".join(res.stdout.splitlines()[-40:])))
            consumed = [v for v in res.infos if v and v[0] == "consumed"]
            if not consumed or consumed[-1][1] != len(chunk):
                raise MachineryFailure("trace of %d records not fully consumed by %s: %r\n%s" % (
                    len(chunk), module, consumed, "\n".join(res.stdout.splitlines()[-40:])))
            return res

        fails, drifts = [], []
        self.last_drift_details = []
        with cf.ThreadPoolExecutor(max_workers=len(chunks)) as ex:
            try:
                results = list(ex.map(one, enumerate(chunks)))
            except tlc.TLCError as e:
                raise MachineryFailure(str(e))
        for res in results:
            if count:
                self.states += res.distinct
                self.transitions += res.generated
            for v in res.fails:
                fails.append((v[0], v[1] if len(v) > 1 else "?") + tuple(v[2:]))
            for v in res.infos:
                if v and v[0] == "drift":
                    drifts.append(v[1])
                    self.last_drift_details.append(tuple(v[1:]))
        if self.bind_rate:
            for cid in [f[0] for f in fails] + list(drifts):
                if cid in self.bind_corrupted:
                    self.bind_rejected.add(cid)
        self.records_validated += len(records)
        self.tlc_runs.append({"module": module, "records": len(records), "chunks": len(chunks),
                              "fails": len(fails), "drift": len(drifts)})
        return fails, drifts

    # input descriptors whose shape constraints the denotations rely on (a list one element shorter is not a
    # corrupted observation but an ill-formed case)
    BIND_SKIP = {"id", "tid", "kind", "what", "conns", "nums", "kw", "seq", "seps", "kinds", "js", "dirs", "w", "build", "model", "seccount"}

    def _corrupt(self, rec, frac=1.0):
        """Binding self-test: change one recorded field (flip a boolean, add one to an integer, drop the last element
        of a list, turn exc 'none' into an exception name); dictionaries are descended into.  Event traces (records
        with a "tid") share snapshot tables that earlier histories define, so only late events are corrupted."""
        if not isinstance(rec, dict) or self.bind_rng.random() > self.bind_rate:
            return rec
        rid = rec.get("id", rec.get("tid"))
        if rid is None or ("tid" in rec and frac < 0.6):
            return rec
        skip = set(x for x in os.environ.get("VERIF_BINDING_SKIP", "").split(",") if x) | self.BIND_SKIP
        cands = []

        def walk(d, path):
            for k, v in d.items():
                if k in skip:
                    continue
                if isinstance(v, dict):
                    walk(v, path + (k,))
                elif isinstance(v, (bool, int)) or (isinstance(v, list) and v) or (k == "exc" and v == "none"):
                    cands.append(path + (k,))
                    if isinstance(v, list) and isinstance(v[-1], dict):      # also inside one element of a list of records
                        j = self.bind_rng.randrange(len(v))
                        walk(v[j], path + (k, j))
        walk(rec, ())
        if not cands:
            return rec
        path = self.bind_rng.choice(sorted(cands))
        new = json.loads(json.dumps(rec))
        d = new
        for k in path[:-1]:
            d = d[k]
        k = path[-1]
        v = d[k]
        if isinstance(v, bool):
            d[k] = not v
        elif isinstance(v, int):
            d[k] = v + 1
        elif isinstance(v, list) and isinstance(v[-1], bool):
            d[k] = v[:-1] + [not v[-1]]
        elif isinstance(v, list) and isinstance(v[-1], int):
            d[k] = v[:-1] + [v[-1] + 1]
        elif isinstance(v, list):
            d[k] = v[:-1]
        else:
            d[k] = "ValueError"
        self.bind_corrupted[rid] = ".".join("*" if isinstance(x, int) else x for x in path)
        return new

    # -- bookkeeping ---------------------------------------------------------
    def sample(self, obj, limit=6):
        if len(self.samples) < limit:
            self.samples.append(_jsonable(obj))

    def add_drift(self, n, sample=None):
        self.drift += n
        if sample is not None and len(self.drift_samples) < 5:
            self.drift_samples.append(_jsonable(sample))

    def violation(self, case, clause, detail=None):
        self.violations.append({"case": case, "clause": clause, "detail": detail})

    def known(self, finding_id):
        self.known_hits[finding_id] = self.known_hits.get(finding_id, 0) + 1

    def open_findings(self):
        return [f for f in self.findings if f.get("property") == self.prop and f.get("status") == "open"]

    # -- finishing -----------------------------------------------------------
    def finish(self):
        """Write replay files, evidence; print verdict lines; return exit code."""
        if self.bind_rate:
            n, m = len(self.bind_corrupted), len(self.bind_rejected)
            by_field = {}
            for cid, k in self.bind_corrupted.items():
                t = by_field.setdefault(k, [0, 0])
                t[0] += 1
                t[1] += cid in self.bind_rejected
            print("BINDING property=%s corrupted=%d rejected=%d (%s) by field: %s" % (
                self.prop, n, m, ("%d%%" % (100 * m // n)) if n else "n/a",
                ", ".join("%s %d/%d" % (k, v[1], v[0]) for k, v in sorted(by_field.items()))))
            # (a field that the property's clause does not read is never rejected: the share per field is what matters)
            return 0 if n and m else 3
        os.makedirs(EVIDENCE_DIR, exist_ok=True)
        vio_paths = []
        seen = set()
        for v in self.violations:
            payload = {"property": self.prop, "case": v["case"], "clause": v["clause"],
                       "detail": v["detail"], "seed": self.seed, "tier": self.tier}
            blob = json.dumps(_jsonable(payload), sort_keys=True)
            sha = hashlib.sha1(blob.encode()).hexdigest()[:16]
            if sha in seen:
                continue
            seen.add(sha)
            if len(vio_paths) >= 25:
                vio_paths.append((None, v))
                continue
            d = os.path.join(REPLAY_DIR, self.prop)
            os.makedirs(d, exist_ok=True)
            p = os.path.join(d, sha + ".json")
            with open(p, "w") as f:
                f.write(json.dumps(_jsonable(payload), indent=1, sort_keys=True))
            vio_paths.append((p, v))
        for fid, n in sorted(self.known_hits.items()):
            f = next((x for x in self.findings if x["id"] == fid), {"what": fid})
            print("KNOWN-FINDING: property=%s %s [%s, %d case(s) this run]" % (
                self.prop, f.get("what", fid), fid, n))
        shown = 0
        for p, v in vio_paths:
            if shown < 25 and p:
                print("VIOLATION property=%s replay=%s clause=%s" % (self.prop, p, v["clause"]))
            shown += 1
        if shown > 25:
            print("... %d further violations (no replay files written for these)" % (shown - 25))
        if self.drift:
            print("DRIFT property=%s model and implementation disagree on %d case(s) without "
                  "falsifying the property, e.g. %s" % (
                      self.prop, self.drift, json.dumps(self.drift_samples[:1])[:400]))
        cov = {
            "states": max(self.states, 0),
            "transitions": max(self.transitions, 0),
            "traces_validated_against_impl": self.records_validated,
            "samples": self.samples or ["(none)"],
            "evaluations": self.impl_cases,
            "distinct_nontrivial": len(self.nontrivial),
            "rule": self.rule,
            "exhaustive": bool(self.exhaustive),
            "model_drift": self.drift,
            "timeouts": self.timeouts,
            "known_findings_hit": self.known_hits,
            "tlc_runs": self.tlc_runs[-40:],
            "actions_covered": self.actions_covered,
        }
        cov.update(self.notes)
        ev = {
            "property_id": self.prop,
            "tier": self.tier,
            "seed": self.seed,
            "level": self.level,
            "coverage": cov,
            "assumptions": self.assumptions,
            "wall_s": round(time.time() - self.t0, 2),
            "violations": len(vio_paths),
        }
        with open(os.path.join(EVIDENCE_DIR, self.prop + ".json"), "w") as f:
            json.dump(ev, f, indent=1, sort_keys=True)
        print("%s tier=%s seed=%d: %d TLC states, %d implementation cases, %d records validated, "
              "%d violation(s), %d drift, %.1fs" % (
                  self.prop, self.tier, self.seed, self.states, self.impl_cases,
                  self.records_validated, len(vio_paths), self.drift, time.time() - self.t0))
        return 1 if vio_paths else 0


def _jsonable(o):
    if isinstance(o, dict):
        return {str(k): _jsonable(v) for k, v in o.items()}
    if isinstance(o, (list, tuple)):
        return [_jsonable(v) for v in o]
    if isinstance(o, (set, frozenset)):
        return sorted((_jsonable(v) for v in o), key=repr)
    if isinstance(o, (str, int, float, bool)) or o is None:
        return o
    return repr(o)


def load_findings():
    try:
        with open(FINDINGS_FILE) as f:
            return json.load(f).get("findings", [])
    except FileNotFoundError:
        return []
