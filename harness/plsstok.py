"""Token sequences of spec/PlssDesc.tla -> concrete text + PLSSDesc arguments."""
from . import render as R

T_TEMPLATES = [t for t in R.TR_TEMPLATES if t[0] in "Tt"]
CHANNELS = ("kw", "config", "parse", "assign", "assign_wait", "obj_kwargs", "obj_dict")


def render_tokens(toks, rng, newline=False, info=None):
    """Returns (text, marker ids of the LONG text tokens).  With info (a dict) the section numbers are chosen
    distinct per SEC token and info receives num2tok / seccount."""
    parts, markers = [], []
    pool = list(range(1, 37))
    rng.shuffle(pool)
    for i, tk in enumerate(toks, start=1):
        t = tk["t"]
        if t == "TR":
            tpl = rng.choice(T_TEMPLATES)
            tw, ns, rg, ew = R.TR_VALUES[tk["v"]]
            parts.append(tpl.format(t=tw, r=rg, NS=ns, EW=ew, ns=ns.lower(), ew=ew.lower(),
                                    NSw={"N": "North", "S": "South"}[ns], EWw={"E": "East", "W": "West"}[ew]))
        elif t == "SEC":
            if info is not None:
                if tk["multi"]:
                    nums, conns = [pool.pop(), pool.pop()], ["AND"]
                else:
                    nums, conns = [pool.pop()], []
                for n_ in nums:
                    info.setdefault("num2tok", {})[str(n_)] = i
                info.setdefault("seccount", {})[i] = len(nums)
            else:
                a = rng.randint(1, 30)
                if tk["multi"]:
                    r_ = rng.random()
                    if r_ < 0.15:
                        nums, conns = [a + rng.randint(1, 2), a], ["THRU"]       # a range written backwards
                    elif r_ < 0.5:
                        nums, conns = [a, a + rng.randint(1, 2)], ["THRU"]
                    else:
                        nums, conns = [a, rng.randint(1, 36)], ["AND"]
                else:
                    nums, conns = [a], []
            parts.append(R.render_sec(nums, conns, tk["colon"], rng))
        elif t == "SECW":
            parts.append(rng.choice(["Section", "Sec.", "Sect.", "Sections"]))
        else:
            k = tk["k"]
            if k == "LONG":
                parts.append(R.marker(i))
                markers.append(i)
            elif k == "LONGOF":
                parts.append(R.marker(i) + " of")
                markers.append(i)
            elif k == "OF":
                parts.append(rng.choice(["of", "in"]))
            elif k == "COMMA":
                parts.append(",")
            else:
                parts.append(rng.choice(["QX", "ZK", "J"]))
    sep = " "
    text = parts[0] if parts else ""
    for j, p in enumerate(parts[1:], start=1):
        # (the library's "of / in before a section" rule looks for ' of' with a blank, so a connector token is
        #  always preceded by a blank - lexical side condition of the OF token)
        is_of = toks[j]["t"] == "TXT" and toks[j]["k"] == "OF"
        text += ("\n" if newline and not is_of and rng.random() < 0.3 else sep) + p
    return text, markers


def config_args(cfg, rng):
    """cfg = record of PlssDesc!ConfigOf -> keyword arguments of the case."""
    parts = []
    if cfg["segment"]:
        parts.append("segment")
    if cfg["secwithin"]:
        parts.append("sec_within")
    if cfg["colon"] == "required":
        parts.append("sec_colon_required")
    elif cfg["colon"] == "cautious":
        parts.append("sec_colon_cautious")
    a = {"config": ",".join(parts) or None}
    if cfg["forced"] != "none":
        a["layout"] = cfg["forced"]
        a["layout_channel"] = rng.choice(CHANNELS)
    return a
