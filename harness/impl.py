"""Functions that exercise the real pyTRS (imported from the working tree in
the worker processes) and project what they observe onto the abstract
observations the trace specifications read.  One function per case kind.

Every function catches exceptions raised by pyTRS and reports them as
{"exc": "<class name>", ...}: an exception is an observation, not a harness
failure."""
import re


def _exc(e):
    return {"exc": type(e).__name__, "exc_msg": str(e)[:300]}


# ---------------------------------------------------------------------------
# C02: aliquot chains -> pieces

_PIECE_TOK = re.compile(r"ALL|[NSEW]2|NE|NW|SE|SW")


def tokenize_piece(label):
    """'N2SWNE' -> ['N2','SW','NE'];  None when the label is not of that form."""
    toks, pos = [], 0
    while pos < len(label):
        m = _PIECE_TOK.match(label, pos)
        if not m:
            return None
        toks.append(m.group())
        pos = m.end()
    return toks


def c02(case):
    import pytrs
    a = case["args"]
    text, ch = a["text"], a["channel"]
    dmin, dmax, bh, qd = a["dmin"], a["dmax"], a["bh"], a.get("qq_depth")
    try:
        if ch in ("config", "plss"):
            parts = []
            if qd is not None:
                parts.append("qq_depth.%d" % qd)
            else:
                parts.append("qq_depth_min.%d" % dmin)
                if dmax:
                    parts.append("qq_depth_max.%d" % dmax)
            if bh:
                parts.append("break_halves")
            cfg = ",".join(parts)
            if ch == "config":
                t = pytrs.Tract(text, parse_qq=True, config=cfg)
            else:
                d = pytrs.PLSSDesc("T154N-R97W Sec 14: " + text, parse_qq=True, config=cfg)
                if len(d.tracts) != 1:
                    return {"exc": "none", "qqs": None, "note": "plss wrapper gave %d tracts" % len(d.tracts)}
                t = d.tracts[0]
            qqs = t.qqs
        elif ch == "kw":
            t = pytrs.Tract(text)
            kw = {"break_halves": bh}
            if qd is not None:
                kw["qq_depth"] = qd
            else:
                kw["qq_depth_min"] = dmin
                if dmax:
                    kw["qq_depth_max"] = dmax
            t.parse(**kw)
            qqs = t.qqs
        else:  # attributes
            t = pytrs.Tract(text)
            if qd is not None:
                t.qq_depth = qd
            else:
                t.qq_depth_min = dmin
                t.qq_depth_max = dmax or None
            t.break_halves = bh
            t.parse()
            qqs = t.qqs
    except Exception as e:  # noqa
        return _exc(e)
    pieces = []
    for q in qqs:
        tk = tokenize_piece(q) if isinstance(q, str) else None
        pieces.append(tk if tk is not None else ["?" + str(q)[:20]])
    return {"exc": "none", "qqs": list(qqs), "pieces": pieces}


# ---------------------------------------------------------------------------
# C05: elided lists of sections / lots

def _lot_int(s):
    m = re.fullmatch(r"L(\d+)", s)
    return int(m.group(1)) if m else -1


def c05(case):
    import pytrs
    a = case["args"]
    text, flavour = a["text"], a["flavour"]
    try:
        if flavour == "find_sec":
            secs = pytrs.find_sec(text)
            return {"exc": "none", "obs": [[int(s) for s in secs]], "nonseq": None, "shared": True, "raw": secs}
        if flavour == "plss":
            d = pytrs.PLSSDesc(a["prefix"] + text + a["suffix"])
            secs = [int(t.sec) if t.sec.isdigit() else -1 for t in d.tracts]
            shared = all(t.desc == a["block"] for t in d.tracts)
            nonseq = any(f == "nonsequential_sections" for f in d.w_flags)
            on_tracts = all(("nonsequential_sections" in t.w_flags) == nonseq for t in d.tracts)
            return {"exc": "none", "obs": [secs], "nonseq": nonseq and on_tracts, "shared": shared,
                    "raw": [(t.trs, t.desc) for t in d.tracts]}
        if flavour == "lots":
            t = pytrs.Tract(text, parse_qq=True)
            lots = [_lot_int(x) for x in t.lots]
            ilots = [x if isinstance(x, int) else -1 for x in t.ilots]
            nonseq = any(f == "nonsequential_lots" for f in t.w_flags)
            return {"exc": "none", "obs": [lots, ilots], "nonseq": nonseq, "shared": True, "raw": list(t.lots)}
    except Exception as e:  # noqa
        return _exc(e)
    raise ValueError(flavour)


# ---------------------------------------------------------------------------
# C12: the standard Twp/Rge/Sec form

def _chars(s):
    return list(s) if isinstance(s, str) else ["?"]


def _tr_attr(num, d, undef, s):
    if num is not None and isinstance(num, int) and not isinstance(num, bool):
        k = "num"
    elif undef:
        k = "undef"
    else:
        k = "err"
    return {"k": k, "n": num if k == "num" else 0, "d": d if (k == "num" and isinstance(d, str)) else "-",
            "s": _chars(s)}


def trs_attrs_from_obj(o):
    return {"twp": _tr_attr(o.twp_num, o.twp_ns, o.twp_undef, o.twp),
            "rge": _tr_attr(o.rge_num, o.rge_ew, o.rge_undef, o.rge),
            "sec": _tr_attr(o.sec_num, None, o.sec_undef, o.sec),
            "twprge": _chars(o.twprge)}


def trs_attrs_from_dict(d):
    return {"twp": _tr_attr(d["twp_num"], d["twp_ns"], d["twp_undef"], d["twp"]),
            "rge": _tr_attr(d["rge_num"], d["rge_ew"], d["rge_undef"], d["rge"]),
            "sec": _tr_attr(d["sec_num"], None, d["sec_undef"], d["sec"]),
            "twprge": _chars(str(d["twp"]) + str(d["rge"]))}


def c12(case):
    import pytrs
    a = case["args"]
    ch = a["channel"]
    try:
        if a["mode"] == "build":
            kw = {}
            if a.get("dns"):
                kw["default_ns"] = a["dns"]
            if a.get("dew"):
                kw["default_ew"] = a["dew"]
            if ch == "TRS.from_twprgesec":
                o = pytrs.TRS.from_twprgesec(a["twp"], a["rge"], a["sec"], **kw)
            elif ch == "TRS.set_twprgesec":
                o = pytrs.TRS()
                o.set_twprgesec(a["twp"], a["rge"], a["sec"], **kw)
            elif ch == "Tract.from_twprgesec":
                cfg = ",".join(x for x in (a.get("dns"), a.get("dew")) if x) or None
                o = pytrs.Tract.from_twprgesec("NE/4", a["twp"], a["rge"], a["sec"], config=cfg)
            else:  # Tract.set_twprgesec
                o = pytrs.Tract("NE/4")
                o.set_twprgesec(a["twp"], a["rge"], a["sec"], **kw)
            out = o.trs
            attrs = trs_attrs_from_obj(o)
        else:
            s = a["s"]
            if ch == "TRS":
                o = pytrs.TRS(s)
                out, attrs = o.trs, trs_attrs_from_obj(o)
            elif ch == "Tract":
                o = pytrs.Tract("NE/4", trs=s)
                out, attrs = o.trs, trs_attrs_from_obj(o)
            elif ch == "trs_to_dict":
                d = pytrs.trs_to_dict(s)
                out, attrs = d["trs"], trs_attrs_from_dict(d)
            else:  # TRS.trs setter on an existing object
                o = pytrs.TRS("154n97w14")
                o.trs = s
                out, attrs = o.trs, trs_attrs_from_obj(o)
        x, y = pytrs.TRS(out), pytrs.TRS(str(out))
        eq = (x == y) and (hash(x) == hash(y)) and (x == pytrs.TRS(x)) and not (x != y)
        return {"exc": "none", "out": out, "rewrap": x.trs, "eq": bool(eq), "attrs": attrs}
    except Exception as e:  # noqa
        return _exc(e)


# ---------------------------------------------------------------------------
# C17: custom_sort / sort_tracts

def _trs_from_shape(e):
    def tr(c):
        if c["k"] == "num":
            return "%d%s" % (c["n"], c["d"])
        return "XXXz" if c["k"] == "err" else "___z"
    s = e["sec"]
    sec = "%02d" % s["n"] if s["k"] == "num" else ("XX" if s["k"] == "err" else "__")
    return tr(e["twp"]) + tr(e["rge"]) + sec


def c17(case):
    import pytrs
    a = case["args"]
    elems = a["elems"]            # abstract elements in list order, each with 'uid' (creation rank)
    container = a["container"]    # TractList | TRSList | PLSSDesc
    try:
        if container == "TRSList":
            objs = [pytrs.TRS(_trs_from_shape(e)) for e in elems]
            lst = pytrs.TRSList(objs)
        else:
            by_uid = sorted(range(len(elems)), key=lambda j: elems[j]["uid"])
            made = {}
            for j in by_uid:      # create in uid order so that creation order == uid order
                made[j] = pytrs.Tract("NE/4", trs=_trs_from_shape(elems[j]))
            objs = [made[j] for j in range(len(elems))]
            lst = pytrs.TractList(objs)
        ids = {id(o): j + 1 for j, o in enumerate(objs)}
        if container == "PLSSDesc":
            d = pytrs.PLSSDesc("T1N-R1W Sec 1: NE/4")
            d.tracts = lst
            d.sort_tracts(a["key"])
            after = list(d.tracts)
        else:
            lst.custom_sort(a["key"])
            after = list(lst)
        return {"exc": "none", "out": [ids.get(id(o), 0) for o in after]}
    except Exception as e:  # noqa
        return _exc(e)


# ---------------------------------------------------------------------------
# C01: documented layouts

def c01(case):
    import pytrs
    from . import plssdoc
    a = case["args"]
    doc = a["doc"]
    doc["blocks"] = {int(k): v for k, v in doc["blocks"].items()}
    out = {"exc": "none", "pretty_exc": "none", "tracts": [], "pretty": [], "obs_layout": "?", "n_e": 0}
    try:
        d = pytrs.PLSSDesc(a["text"])
        out["obs_layout"] = d.current_layout
        out["n_e"] = len(d.e_flags)
        out["e_flags"] = [str(f)[:80] for f in d.e_flags][:5]
        out["tracts"] = plssdoc.project_tracts(d.tracts, doc)
        out["raw"] = [(t.trs, t.desc) for t in d.tracts][:12]
    except Exception as e:  # noqa
        out.update(_exc(e))
        return out
    try:
        pretty = d.pretty_desc()
        d2 = pytrs.PLSSDesc(pretty)
        out["pretty"] = plssdoc.project_tracts(d2.tracts, doc, ws_insensitive=True)
        out["pretty_text"] = pretty[:300]
    except Exception as e:  # noqa
        out["pretty_exc"] = type(e).__name__
    return out


# ---------------------------------------------------------------------------
# C20: optional parse modes

def _pairs(tracts, table):
    out = []
    for t in tracts:
        key = (t.trs, t.desc)
        out.append(table.setdefault(key, len(table) + 1))
    return out


def c20(case):
    import pytrs
    a = case["args"]
    mode = a["mode"]
    if mode == "same":
        table = {}
        r = {"a_exc": "none", "b_exc": "none", "a": [], "b": [], "has_warning": False}
        try:
            da = pytrs.PLSSDesc(a["text"], config=a.get("cfg_a"))
            r["a"] = _pairs(da.tracts, table)
            r["raw_a"] = [(t.trs, t.desc) for t in da.tracts][:10]
        except Exception as e:  # noqa
            r["a_exc"] = type(e).__name__
        try:
            db = pytrs.PLSSDesc(a["text"], config=a.get("cfg_b"))
            r["b"] = _pairs(db.tracts, table)
            r["raw_b"] = [(t.trs, t.desc) for t in db.tracts][:10]
            w = a.get("warning")
            if w:
                r["has_warning"] = any(isinstance(f, str) and f.startswith(w) for f in db.w_flags) and all(
                    any(isinstance(f, str) and f.startswith(w) for f in t.w_flags) for t in db.tracts)
        except Exception as e:  # noqa
            r["b_exc"] = type(e).__name__
        return r
    if mode == "fallback":
        try:
            d = pytrs.PLSSDesc(a["text"], config=a.get("cfg"))
            return {"exc": "none", "n": len(d.tracts), "whole": bool(d.tracts) and d.tracts[0].desc == d.pp_desc,
                    "raw": [(t.trs, t.desc) for t in d.tracts][:6]}
        except Exception as e:  # noqa
            return _exc(e)
    if mode == "secwithin":
        from . import render as R
        try:
            d = pytrs.PLSSDesc(a["text"], config="sec_within")
            short = R.tr_short(a["tr"])
            tracts, warned = [], []
            for t in d.tracts:
                tracts.append({"tr": a["tr"] if t.twprge == short else 0,
                               "sec": int(t.sec) if t.sec.isdigit() else -1,
                               "joined": t.desc == a["expected_desc"]})
                flag = "sec_within<%s>" % t.trs
                warned.append(flag in d.w_flags and flag in t.w_flags)
            return {"exc": "none", "tracts": tracts, "warned": warned, "raw": [(t.trs, t.desc) for t in d.tracts][:6]}
        except Exception as e:  # noqa
            return _exc(e)
    raise ValueError(mode)
