"""Functions that exercise the real pyTRS (imported from the working tree in
the worker processes) and project what they observe onto the abstract
observations the trace specifications read.  One function per case kind.

Every function catches exceptions raised by pyTRS and reports them as
{"exc": "<class name>", ...}: an exception is an observation, not a harness
failure."""
import re
import warnings

# (the library *warns* about a maximum depth below the minimum depth; a warning is not part of any observation)
warnings.filterwarnings("ignore", category=UserWarning)


def _exc(e):
    return {"exc": type(e).__name__, "exc_msg": str(e)[:300]}


# ---------------------------------------------------------------------------
# C02: aliquot chains -> pieces

_PIECE_TOK = re.compile(r"ALL|[NSEW]2|NE|NW|SE|SW")


def tokenize_piece(label):
    """'N2SWNE' -> ['N2','SW','NE'];  None when the label is not of that form."""
    toks, pos = [], 0
    while pos < len(label):
        m = _PIECE_TOK.match(label, pos)
        if not m:
            return None
        toks.append(m.group())
        pos = m.end()
    return toks


def c02(case):
    import pytrs
    a = case["args"]
    text, ch = a["text"], a["channel"]
    dmin, dmax, bh, qd = a["dmin"], a["dmax"], a["bh"], a.get("qq_depth")
    try:
        if ch in ("config", "plss", "bulk", "bulk_plss"):
            parts = []
            if qd is not None:
                parts.append("qq_depth.%d" % qd)
            else:
                parts.append("qq_depth_min.%d" % dmin)
                if dmax:
                    parts.append("qq_depth_max.%d" % dmax)
            if bh:
                parts.append("break_halves")
            cfg = ",".join(parts)
            if ch == "config":
                t = pytrs.Tract(text, parse_qq=True, config=cfg)
            elif ch == "bulk":
                # configured tracts parsed through their container: parse_tracts() without arguments uses each tract's
                # own settings
                t = pytrs.Tract(text, config=cfg)
                pytrs.TractList([t]).parse_tracts()
            elif ch == "bulk_plss":
                d = pytrs.PLSSDesc("T154N-R97W Sec 14: " + text, config=cfg)
                if len(d.tracts) != 1:
                    return {"exc": "none", "qqs": None, "note": "plss wrapper gave %d tracts" % len(d.tracts)}
                d.tracts.parse_tracts()
                t = d.tracts[0]
            else:
                d = pytrs.PLSSDesc("T154N-R97W Sec 14: " + text, parse_qq=True, config=cfg)
                if len(d.tracts) != 1:
                    return {"exc": "none", "qqs": None, "note": "plss wrapper gave %d tracts" % len(d.tracts)}
                t = d.tracts[0]
            qqs = t.qqs
        elif ch == "mixed":
            # the object is configured with a *related* depth setting; the keyword is the caller's statement for this
            # call and silences it (tract.py: "If qq_depth_min or qq_depth_max are specified as an arg, we will NOT use
            # the instance attribute"; an exact qq_depth keyword gets top priority)
            if qd is not None:
                t = pytrs.Tract(text, config="qq_depth_min.%d,qq_depth_max.%d" % ((qd % 3) + 1, (qd % 3) + 2))
                t.parse(qq_depth=qd, break_halves=bh)
            else:
                cfg = "qq_depth.%d" % ((dmin % 3) + 1)
                if dmax:
                    cfg += ",qq_depth_max.%d" % dmax
                t = pytrs.Tract(text, config=cfg)
                t.parse(qq_depth_min=dmin, break_halves=bh)
            qqs = t.qqs
        elif ch == "mixed_plss":
            # the same through a description: the related setting configured, the keyword given to PLSSDesc.parse(),
            # which hands the settings of that call down to its tracts
            if qd is not None:
                cfg = "qq_depth_min.%d,qq_depth_max.%d" % ((qd % 3) + 1, (qd % 3) + 2)
                kw = {"qq_depth": qd}
            else:
                cfg = "qq_depth.%d" % ((dmin % 3) + 1)
                kw = {"qq_depth_min": dmin}
                if dmax:
                    kw["qq_depth_max"] = dmax
            d = pytrs.PLSSDesc("T154N-R97W Sec 14: " + text, config=cfg)
            d.parse(parse_qq=True, break_halves=bh, **kw)
            if len(d.tracts) != 1:
                return {"exc": "none", "qqs": None, "note": "plss wrapper gave %d tracts" % len(d.tracts)}
            qqs = d.tracts[0].qqs
        elif ch == "function":
            # the function the parser itself calls for every aliquot of a description (its result list is handed to the
            # caller, see the end of this function)
            from pytrs.parser.tract.aliquot_parse import parse_aliquot
            if qd is not None:
                qqs = parse_aliquot(text, qd, qd, qd, bh)
            else:
                qqs = parse_aliquot(text, dmin, dmax or None, None, bh)
        elif ch == "kw":
            t = pytrs.Tract(text)
            kw = {"break_halves": bh}
            if qd is not None:
                kw["qq_depth"] = qd
            else:
                kw["qq_depth_min"] = dmin
                if dmax:
                    kw["qq_depth_max"] = dmax
            t.parse(**kw)
            qqs = t.qqs
        else:  # attributes
            t = pytrs.Tract(text)
            if qd is not None:
                t.qq_depth = qd
            else:
                t.qq_depth_min = dmin
                t.qq_depth_max = dmax or None
            t.break_halves = bh
            t.parse()
            qqs = t.qqs
    except Exception as e:  # noqa
        return _exc(e)
    pieces = []
    for q in qqs:
        tk = tokenize_piece(q) if isinstance(q, str) else None
        pieces.append(tk if tk is not None else ["?" + str(q)[:20]])
    out = {"exc": "none", "qqs": list(qqs), "pieces": pieces}
    # the returned list is the caller's: callers extend, sort and empty it.  Whatever they do to it must not reach
    # any later parse (the next cases of this worker process parse the same chains again)
    try:
        del qqs[:1]
        qqs.extend(["SWSW", "XX"])
    except Exception:  # noqa
        pass
    return out


# ---------------------------------------------------------------------------
# C05: elided lists of sections / lots

def _lot_int(s):
    m = re.fullmatch(r"L(\d+)", s)
    return int(m.group(1)) if m else -1


_C05_CFG = [None]


def c05(case):
    import pytrs
    a = case["args"]
    text, flavour = a["text"], a["flavour"]
    try:
        if flavour == "find_sec":
            secs = pytrs.find_sec(text)
            return {"exc": "none", "obs": [[int(s) for s in secs]], "nonseq": None, "shared": True, "raw": secs}
        if flavour == "plss":
            kw = {}
            if a.get("shared_cfg"):
                # the caller keeps one Config object for all its descriptions; some calls add the layout by keyword
                if _C05_CFG[0] is None:
                    _C05_CFG[0] = pytrs.Config("n,w")
                kw["config"] = _C05_CFG[0]
            if a.get("layout_kw"):
                kw["layout"] = a["layout_kw"]
            d = pytrs.PLSSDesc(a["prefix"] + text + a["suffix"], **kw)
            secs = [int(t.sec) if t.sec.isdigit() else -1 for t in d.tracts]
            shared = all(t.desc == a["block"] for t in d.tracts)
            nonseq = any(f == "nonsequential_sections" for f in d.w_flags)
            on_tracts = all(("nonsequential_sections" in t.w_flags) == nonseq for t in d.tracts)
            return {"exc": "none", "obs": [secs], "nonseq": nonseq and on_tracts, "shared": shared,
                    "raw": [(t.trs, t.desc) for t in d.tracts]}
        if flavour == "div_lots":
            t = pytrs.Tract(text, parse_qq=True)
            lots = []
            for x in t.lots:
                m = re.fullmatch(r"(?:[NSEW2]+ of )?L(\d+)", x)
                lots.append(int(m.group(1)) if m else -1)
            ilots = [x if isinstance(x, int) else -1 for x in t.ilots]
            nonseq = any(f == "nonsequential_lots" for f in t.w_flags)
            return {"exc": "none", "obs": [lots, ilots], "nonseq": nonseq, "shared": True, "raw": list(t.lots)}
        if flavour == "ctx_lots":
            t = pytrs.Tract(text, parse_qq=True)
            lots = [_lot_int(x) for x in t.lots]
            ilots = [x if isinstance(x, int) else -1 for x in t.ilots]
            nonseq = any(f == "nonsequential_lots" for f in t.w_flags)
            if not lots or lots[0] != a["lead"] or not ilots or ilots[0] != a["lead"]:
                return {"exc": "none", "obs": [[-1], [-1]], "nonseq": nonseq, "shared": True, "raw": list(t.lots)}
            return {"exc": "none", "obs": [lots[1:], ilots[1:]], "nonseq": nonseq, "shared": True, "raw": list(t.lots)}
        if flavour == "lots":
            t = pytrs.Tract(text, parse_qq=True)
            lots = [_lot_int(x) for x in t.lots]
            ilots = [x if isinstance(x, int) else -1 for x in t.ilots]
            nonseq = any(f == "nonsequential_lots" for f in t.w_flags)
            obs = [lots, ilots]
            # the same list as the description of several sections (every tract of the block gets it, and reads it for
            # itself), and in a second tract of its own: every reading expands it, every reading warns
            d = pytrs.PLSSDesc("T154N-R97W Sec 14 - 15: " + text, parse_qq=True)
            readers = list(d.tracts) + [pytrs.Tract(text, parse_qq=True)]
            for t2 in readers:
                obs.append([_lot_int(x) for x in t2.lots])
                nonseq = nonseq and any(f == "nonsequential_lots" for f in t2.w_flags)
            if len(d.tracts) != 2:
                obs.append([-2])
            return {"exc": "none", "obs": obs, "nonseq": nonseq, "shared": True, "raw": list(t.lots)}
    except Exception as e:  # noqa
        return _exc(e)
    raise ValueError(flavour)


# ---------------------------------------------------------------------------
# C12: the standard Twp/Rge/Sec form

def _chars(s):
    return list(s) if isinstance(s, str) else ["?"]


def _tr_attr(num, d, undef, s):
    if num is not None and isinstance(num, int) and not isinstance(num, bool):
        k = "num"
    elif undef:
        k = "undef"
    else:
        k = "err"
    return {"k": k, "n": num if k == "num" else 0, "d": d if (k == "num" and isinstance(d, str)) else "-",
            "s": _chars(s)}


def trs_attrs_from_obj(o):
    # the documented aliases .ns / .ew must say what .twp_ns / .rge_ew say ("?" makes the record fail otherwise)
    ns = o.twp_ns if getattr(o, "ns", o.twp_ns) == o.twp_ns else "?"
    ew = o.rge_ew if getattr(o, "ew", o.rge_ew) == o.rge_ew else "?"
    out = {"twp": _tr_attr(o.twp_num, ns, o.twp_undef, o.twp),
           "rge": _tr_attr(o.rge_num, ew, o.rge_undef, o.rge),
           "sec": _tr_attr(o.sec_num, None, o.sec_undef, o.sec),
           "twprge": _chars(o.twprge)}
    # what the reporting methods say, component by component and for the whole (is_error / is_undef of a TRS,
    # trs_is_error / trs_is_undef of a Tract)
    ie = getattr(o, "is_error", None) or getattr(o, "trs_is_error", None)
    iu = getattr(o, "is_undef", None) or getattr(o, "trs_is_undef", None)
    if callable(ie) and callable(iu):
        sel = [dict(twp=True, rge=False, sec=False), dict(twp=False, rge=True, sec=False), dict(twp=False, rge=False, sec=True)]
        out["rep_err"] = [bool(ie(**k)) for k in sel] + [bool(ie())]
        out["rep_undef"] = [bool(iu(**k)) for k in sel] + [bool(iu())]
    else:
        out.update(_derived_reports(out))
    return out


def _derived_reports(a):
    ks = [a["twp"]["k"], a["rge"]["k"], a["sec"]["k"]]
    return {"rep_err": [k == "err" for k in ks] + [("err" in ks)], "rep_undef": [k == "undef" for k in ks] + [("undef" in ks)]}


def trs_attrs_from_dict(d):
    out = {"twp": _tr_attr(d["twp_num"], d["twp_ns"], d["twp_undef"], d["twp"]),
           "rge": _tr_attr(d["rge_num"], d["rge_ew"], d["rge_undef"], d["rge"]),
           "sec": _tr_attr(d["sec_num"], None, d["sec_undef"], d["sec"]),
           "twprge": _chars(str(d["twp"]) + str(d["rge"]))}
    out.update(_derived_reports(out))       # (a dict has no reporting methods)
    return out


def c12(case):
    import pytrs
    a = case["args"]
    ch = a["channel"]
    o = None
    _mc_old = None
    try:
        if a["mode"] == "build":
            kw = {}
            if a.get("via_mc") and (a.get("dns") or a.get("dew")):
                # the same defaults as the program-wide MasterConfig settings (set after import, as a program would),
                # the call itself says nothing about directions
                _mc_old = (pytrs.MasterConfig.default_ns, pytrs.MasterConfig.default_ew)
                pytrs.MasterConfig.default_ns = a.get("dns") or _mc_old[0]
                pytrs.MasterConfig.default_ew = a.get("dew") or _mc_old[1]
                a = dict(a, dns=None, dew=None)
            if a.get("dns"):
                kw["default_ns"] = a["dns"]
            if a.get("dew"):
                kw["default_ew"] = a["dew"]
            if a.get("ocr") and ch != "Tract.from_twprgesec":
                kw["ocr_scrub"] = True
            if ch == "TRS.from_twprgesec":
                o = pytrs.TRS.from_twprgesec(a["twp"], a["rge"], a["sec"], **kw)
            elif ch == "TRS.set_twprgesec":
                o = pytrs.TRS()
                _ = hash(o), {o: 1}            # (the object has been hashed / used as a key before it is re-set)
                o.set_twprgesec(a["twp"], a["rge"], a["sec"], **kw)
            elif ch == "Tract.from_twprgesec":
                cfg = ",".join(x for x in (a.get("dns"), a.get("dew"), "ocr_scrub" if a.get("ocr") else None) if x) or None
                o = pytrs.Tract.from_twprgesec("NE/4", a["twp"], a["rge"], a["sec"], config=cfg)
            else:  # Tract.set_twprgesec
                o = pytrs.Tract("NE/4")
                o.set_twprgesec(a["twp"], a["rge"], a["sec"], **kw)
            out = o.trs
            attrs = trs_attrs_from_obj(o)
        else:
            s = a["s"]
            for w in a.get("warm") or []:      # strings the process has handled just before (a warm cache)
                pytrs.TRS(w)
            if ch == "TRS":
                o = pytrs.TRS(s)
                out, attrs = o.trs, trs_attrs_from_obj(o)
            elif ch == "Tract":
                o = pytrs.Tract("NE/4", trs=s)
                out, attrs = o.trs, trs_attrs_from_obj(o)
            elif ch == "trs_to_dict":
                d = pytrs.trs_to_dict(s)
                out, attrs = d["trs"], trs_attrs_from_dict(d)
            else:  # TRS.trs setter on an existing object
                o = pytrs.TRS("154n97w14")
                _ = hash(o), {o: 1}
                o.trs = s
                out, attrs = o.trs, trs_attrs_from_obj(o)
        x, y = pytrs.TRS(out), pytrs.TRS(str(out))
        eq = (x == y) and (hash(x) == hash(y)) and (x == pytrs.TRS(x)) and not (x != y)
        if isinstance(o, pytrs.TRS):
            # the object itself, whatever happened to it before: equal strings compare and hash equal
            eq = eq and (o == x) and (hash(o) == hash(x)) and (o in {x}) and len({o, x}) == 1
        return {"exc": "none", "out": out, "rewrap": x.trs, "eq": bool(eq), "attrs": attrs}
    except Exception as e:  # noqa
        return _exc(e)
    finally:
        if _mc_old is not None:
            pytrs.MasterConfig.default_ns, pytrs.MasterConfig.default_ew = _mc_old


# ---------------------------------------------------------------------------
# C17: custom_sort / sort_tracts

def _trs_from_shape(e, upper=False):
    def tr(c):
        if c["k"] == "num":
            # (direction letters may be written in upper case: the same Twp/Rge)
            return "%d%s" % (c["n"], c["d"].upper() if upper else c["d"])
        return "XXXz" if c["k"] == "err" else "___z"
    s = e["sec"]
    sec = "%02d" % s["n"] if s["k"] == "num" else ("XX" if s["k"] == "err" else "__")
    return tr(e["twp"]) + tr(e["rge"]) + sec


def c17(case):
    import pytrs
    a = case["args"]
    elems = a["elems"]            # abstract elements in list order, each with 'uid' (creation rank)
    container = a["container"]    # TractList | TRSList | PLSSDesc
    try:
        up = a.get("upper") or [False] * len(elems)
        if container == "TRSList":
            objs = [pytrs.TRS(_trs_from_shape(e, up[j])) for j, e in enumerate(elems)]
            lst = pytrs.TRSList(objs)
        else:
            by_uid = sorted(range(len(elems)), key=lambda j: elems[j]["uid"])
            made = {}
            for j in by_uid:      # create in uid order so that creation order == uid order
                made[j] = pytrs.Tract("NE/4", trs=_trs_from_shape(elems[j], up[j]), config=(a.get("cfgs") or {}).get(str(j)))
            objs = [made[j] for j in range(len(elems))]
            lst = pytrs.TractList(objs)
        ids = {id(o): j + 1 for j, o in enumerate(objs)}
        route = a.get("route", "method")
        key = a["key"]
        if route == "keylist":
            # "a list of sort keys, to be applied left-to-right"
            key = [k_ for k_ in key.split(",")]
            if a.get("keytuple"):
                key = tuple(key)
        target = lst
        if container == "PLSSDesc":
            target = pytrs.PLSSDesc("T1N-R1W Sec 1: NE/4")
            target.tracts = lst
        if route in ("unpack", "grouped"):
            # sorting inside / after grouping: group_by(..., sort_key=), sort_grouped(), unpack_group(..., sort_key=)
            attr = a.get("group_attr", "twprge")
            cls = pytrs.TRSList if container == "TRSList" else pytrs.TractList
            g0 = target.group_by(attr)
            if route == "unpack":
                pre = cls.unpack_group(g0)
                after = cls.unpack_group(g0, sort_key=key)
                return {"exc": "none", "pre": [ids.get(id(o), 0) for o in pre], "out": [ids.get(id(o), 0) for o in after],
                        "groups_untouched": [ids.get(id(o), 0) for o in cls.unpack_group(g0)] == [ids.get(id(o), 0) for o in pre]}
            if a.get("grouped_how") in ("into_method", "into_function") and len(lst) >= 2 and container != "PLSSDesc":
                # two batches: the second goes into the (sorted) groups of the first, with the same sort key - every group
                # of the result is sorted as a whole.  What the last sort received = the same calls with no key at the end.
                half = len(lst) // 2
                first, second = cls(list(lst)[:half]), cls(list(lst)[half:])

                def grp(batch, **kw_):
                    if a["grouped_how"] == "into_function" and cls is pytrs.TractList:
                        return pytrs.group_tracts_by(list(batch), attr, **kw_)
                    return batch.group_by(attr, **kw_)
                g0 = grp(first, sort_key=key)
                grp(second, into=g0)
                g0 = {k_: list(v_) for k_, v_ in g0.items()}
                g1 = grp(first, sort_key=key)
                grp(second, into=g1, sort_key=key)
            elif a.get("grouped_how") == "sort_grouped":
                g1 = cls.sort_grouped(target.group_by(attr), key)
            else:
                g1 = target.group_by(attr, sort_key=key)
            if list(g1.keys()) != list(g0.keys()):
                return {"exc": "none", "groups": [], "note": "group keys differ"}
            return {"exc": "none", "groups": [{"pre": [ids.get(id(o), 0) for o in g0[k_]], "out": [ids.get(id(o), 0) for o in g1[k_]]}
                                              for k_ in g0]}
        if container == "PLSSDesc":
            target.sort_tracts(key)
            after = list(target.tracts)
        elif route == "sort_method" and key == "i,s,r,t":
            lst.sort()                      # list-style sort(): the documented default key
            after = list(lst)
        else:
            lst.custom_sort(key)
            after = list(lst)
        return {"exc": "none", "out": [ids.get(id(o), 0) for o in after]}
    except Exception as e:  # noqa
        return _exc(e)


# ---------------------------------------------------------------------------
# C01: documented layouts

def c01(case):
    import pytrs
    from . import plssdoc
    a = case["args"]
    doc = a["doc"]
    doc["blocks"] = {int(k): v for k, v in doc["blocks"].items()}
    out = {"exc": "none", "pretty_exc": "none", "tracts": [], "pretty": [], "obs_layout": "?", "n_e": 0, "plines": []}
    try:
        route = a.get("route")
        if route == "dry":
            # "what would the tracts be": a description created with wait_to_parse, parse(commit=False) - the returned
            # TractList is all the caller gets (its tracts carry the flags), nothing is stored
            d0 = pytrs.PLSSDesc(a["text"], wait_to_parse=True)
            tl = d0.parse(commit=False)
            eflags = []
            for t in tl:
                eflags += [f for f in t.e_flags if f not in eflags]
            out["obs_layout"] = d0.deduce_layout()
            out["n_e"] = len(eflags)
            out["e_flags"] = [str(f)[:80] for f in eflags][:5]
            out["tracts"] = plssdoc.project_tracts(tl, doc)
            out["raw"] = [(t.trs, t.desc) for t in tl][:12]
            d = tl
        else:
            if route == "deferred":
                d = pytrs.PLSSDesc(a["text"], wait_to_parse=True)
                d.parse()
            else:
                d = pytrs.PLSSDesc(a["text"])
            out["obs_layout"] = d.current_layout
            out["n_e"] = len(d.e_flags)
            out["e_flags"] = [str(f)[:80] for f in d.e_flags][:5]
            out["tracts"] = plssdoc.project_tracts(d.tracts, doc)
            out["raw"] = [(t.trs, t.desc) for t in d.tracts][:12]
    except Exception as e:  # noqa
        out.update(_exc(e))
        return out
    try:
        popt = a.get("pretty_opts") or {}
        pretty = d.pretty_desc(**popt)
        d2 = pytrs.PLSSDesc(pretty)
        out["pretty"] = plssdoc.project_tracts(d2.tracts, doc, ws_insensitive=True)
        out["pretty_text"] = pretty[:300]
        out["plines"] = plssdoc.lex_pretty(pretty, doc, word_sec=popt.get("word_sec", "Sec "))
    except Exception as e:  # noqa
        out["pretty_exc"] = type(e).__name__
    return out


# ---------------------------------------------------------------------------
# C20: optional parse modes

def _pairs(tracts, table):
    out = []
    for t in tracts:
        key = (t.trs, t.desc)
        out.append(table.setdefault(key, len(table) + 1))
    return out


_C20_SWITCHES = ("segment", "sec_within", "sec_colon_required", "sec_colon_cautious", "parse_qq")


def _c20_cfg(text, form):
    """the configuration as the case wants it handed over: the text itself, or a Config object built from keywords / a
    dict in which EVERY mode switch is spelled out (True for the ones the text names, False for the others)"""
    import pytrs
    if not form or form == "text" or text is None:
        return text
    names = [x.strip() for x in text.split(",") if x.strip()]
    settings = {k: (k in names) for k in _C20_SWITCHES}
    if form == "kwargs_full":
        return pytrs.Config.from_kwargs(**settings)
    return pytrs.Config.from_dict(settings)


def c20(case):
    import pytrs
    a = dict(case["args"])
    mode = a["mode"]
    form = a.get("cfg_form")
    if form:
        for k_ in ("cfg_b", "cfg"):
            if k_ in a:
                a[k_] = _c20_cfg(a[k_], form)
    if mode == "same":
        table = {}
        r = {"a_exc": "none", "b_exc": "none", "a": [], "b": [], "has_warning": False}
        try:
            da = pytrs.PLSSDesc(a["text"], config=a.get("cfg_a"))
            r["a"] = _pairs(da.tracts, table)
            r["raw_a"] = [(t.trs, t.desc) for t in da.tracts][:10]
        except Exception as e:  # noqa
            r["a_exc"] = type(e).__name__
        try:
            if a.get("kw_b"):          # the second parse: configured object, then parse(**keywords)
                db = pytrs.PLSSDesc(a["text"], config=a.get("cfg_b"), wait_to_parse=True)
                db.parse(**a["kw_b"])
            else:
                db = pytrs.PLSSDesc(a["text"], config=a.get("cfg_b"))
            r["b"] = _pairs(db.tracts, table)
            r["raw_b"] = [(t.trs, t.desc) for t in db.tracts][:10]
            w = a.get("warning")
            if w:
                r["has_warning"] = any(isinstance(f, str) and f.startswith(w) for f in db.w_flags) and all(
                    any(isinstance(f, str) and f.startswith(w) for f in t.w_flags) for t in db.tracts)
        except Exception as e:  # noqa
            r["b_exc"] = type(e).__name__
        return r
    if mode == "fallback":
        try:
            if a.get("kw"):
                d = pytrs.PLSSDesc(a["text"], config=a.get("cfg"), wait_to_parse=True)
                d.parse(**a["kw"])
            else:
                d = pytrs.PLSSDesc(a["text"], config=a.get("cfg"))
            return {"exc": "none", "n": len(d.tracts), "whole": bool(d.tracts) and d.tracts[0].desc == d.pp_desc,
                    "raw": [(t.trs, t.desc) for t in d.tracts][:6]}
        except Exception as e:  # noqa
            return _exc(e)
    if mode == "secwithin":
        from . import render as R
        try:
            d = pytrs.PLSSDesc(a["text"], config=a.get("cfg", "sec_within"))
            short = R.tr_short(a["tr"])
            tracts, warned = [], []
            for t in d.tracts:
                tracts.append({"tr": a["tr"] if t.twprge == short else 0,
                               "sec": int(t.sec) if t.sec.isdigit() else -1,
                               "joined": t.desc == a["expected_desc"]})
                flag = "sec_within<%s>" % t.trs
                warned.append(flag in d.w_flags and flag in t.w_flags)
            return {"exc": "none", "tracts": tracts, "warned": warned, "raw": [(t.trs, t.desc) for t in d.tracts][:6]}
        except Exception as e:  # noqa
            return _exc(e)
    raise ValueError(mode)


# ---------------------------------------------------------------------------
# PLSSDesc observations (C03, C04, C09, C10, C11)

_CULLED = re.compile(r"(?:[\s.,;:\-–—]|\bthe\b|\ball\b|\bof\b|\bin\b|\band\b)*", re.IGNORECASE)


def _is_whole(desc, pp):
    """desc is the entire preprocessed text, up to what cleanup_desc removes at the ends."""
    if not isinstance(desc, str) or not isinstance(pp, str):
        return False
    if desc == pp:
        return True
    if not desc:
        return _CULLED.fullmatch(pp) is not None
    i = pp.find(desc)
    if i < 0:
        return False
    return _CULLED.fullmatch(pp[:i]) is not None and _CULLED.fullmatch(pp[i + len(desc):]) is not None


def _flags_typed(flags, lines):
    return (isinstance(flags, list) and all(isinstance(f, str) for f in flags)
            and isinstance(lines, list)
            and all(isinstance(x, tuple) and len(x) == 2 and isinstance(x[0], str) and isinstance(x[1], str)
                    for x in lines))


def _intern(table, x):
    key = x if isinstance(x, str) else repr(x)
    return table.setdefault(key, len(table) + 1)


def _firsts(table, lines):
    out = []
    for x in lines if isinstance(lines, list) else []:
        out.append(_intern(table, x[0] if isinstance(x, tuple) and len(x) >= 1 else ("<bare>", repr(x))))
    return out


def plss_make(a):
    """Create (and parse) a PLSSDesc the way the case says."""
    import pytrs
    text, cfg = a["text"], a.get("config")
    lay, ch = a.get("layout"), a.get("layout_channel", "kw")
    kw = dict(a.get("kw") or {})
    src = a.get("source", "SRC-1")
    if lay and ch == "kw":
        return pytrs.PLSSDesc(text, config=cfg, layout=lay, source=src, **kw)
    if lay and ch == "config":
        cfg2 = ",".join(x for x in (cfg, lay) if x)
        return pytrs.PLSSDesc(text, config=cfg2, source=src, **kw)
    if lay and ch == "parse":
        d = pytrs.PLSSDesc(text, config=cfg, source=src, wait_to_parse=True, **kw)
        d.parse(layout=lay)
        return d
    if lay and ch == "assign":          # the layout arrives through the .config setter of an existing object
        d = pytrs.PLSSDesc(text, config=cfg, source=src, **kw)
        d.config = lay
        d.parse()
        return d
    if lay and ch in ("obj_kwargs", "obj_dict"):      # a Config object built from keywords / a dict, at creation
        base = pytrs.Config(cfg) if cfg else None
        settings = {k: v for k, v in (vars(base).items() if base is not None else [])
                    if v is not None and not k.startswith("_") and k not in ("config_text", "config_name")}
        settings["layout"] = lay
        cobj = pytrs.Config.from_kwargs(**settings) if ch == "obj_kwargs" else pytrs.Config.from_dict(settings)
        return pytrs.PLSSDesc(text, config=cobj, source=src, **kw)
    if lay and ch == "assign_wait":     # ... of an object that has not been parsed yet
        d = pytrs.PLSSDesc(text, config=cfg, source=src, wait_to_parse=True, **kw)
        d.config = lay
        d.parse()
        return d
    return pytrs.PLSSDesc(text, config=cfg, source=src, **kw)


def plss_project(d, a):
    from . import render as R
    table = {}
    marks = a.get("markers") or []
    pp = d.pp_desc
    tracts = []
    for t in d.tracts:
        tracts.append({
            "trs": _chars(t.trs), "attrs": trs_attrs_from_obj(t),
            "whole": _is_whole(t.desc, pp), "verbatim": t.desc == pp,
            "orig_ok": t.orig_desc == a["text"], "source_ok": t.source == a.get("source", "SRC-1") and type(t.source) is type(a.get("source", "SRC-1")),
            "index": t.orig_index if isinstance(t.orig_index, int) else -1,
            "markers": [m for m in marks if isinstance(t.desc, str) and R.marker(m) in t.desc],
            "wflags": [_intern(table, f) for f in t.w_flags], "eflags": [_intern(table, f) for f in t.e_flags],
            "wfirsts": _firsts(table, t.w_flag_lines), "efirsts": _firsts(table, t.e_flag_lines),
            "typed": _flags_typed(t.w_flags, t.w_flag_lines) and _flags_typed(t.e_flags, t.e_flag_lines),
        })
    unused_text = " ".join(f for f in d.e_flags if isinstance(f, str) and f.startswith("unused_desc<"))
    trig = []
    for tg in a.get("triggers") or []:
        kind, phrase = tg["kind"], " ".join(tg["phrase"].split()).lower()
        raised = kind in d.w_flags
        ctxs = [" ".join(x[1].split()).lower() for x in d.w_flag_lines
                if isinstance(x, tuple) and len(x) == 2 and x[0] == kind and isinstance(x[1], str)]
        trig.append({"kind": kind, "raised": raised, "in_context": any(phrase in c for c in ctxs)})
    return {
        "exc": "none", "layout": d.current_layout if isinstance(d.current_layout, str) else "?",
        "tracts": tracts,
        "wflags": [_intern(table, f) for f in d.w_flags], "eflags": [_intern(table, f) for f in d.e_flags],
        "wfirsts": _firsts(table, d.w_flag_lines), "efirsts": _firsts(table, d.e_flag_lines),
        "typed": _flags_typed(d.w_flags, d.w_flag_lines) and _flags_typed(d.e_flags, d.e_flag_lines),
        "flawed": bool(d.desc_is_flawed),
        "unused": [m for m in marks if R.marker(m) in unused_text],
        "trig": trig,
        "raw": {"layout": d.current_layout, "tracts": [(t.trs, (t.desc or "")[:60]) for t in d.tracts][:8],
                "w_flags": [str(f)[:60] for f in d.w_flags][:8], "e_flags": [str(f)[:60] for f in d.e_flags][:8]},
    }


EMPTY_OBS = {"layout": "?", "tracts": [], "wflags": [], "eflags": [], "wfirsts": [], "efirsts": [], "typed": True,
             "flawed": False, "unused": [], "trig": []}


class _DryView:
    """What a caller holds after `tracts = PLSSDesc(text, ..., wait_to_parse=True).parse(commit=False)`: the returned
    tracts and nothing else (nothing is stored on the description), so the tracts' own flags are the only report."""

    def __init__(self, d, tracts):
        self.tracts = tracts
        self.pp_desc = d.preprocess(commit=False) if hasattr(d, "preprocess") else ""
        self.current_layout = "?"
        for name in ("w_flags", "e_flags", "w_flag_lines", "e_flag_lines"):
            seen = []
            for t in tracts:
                for f in getattr(t, name):
                    if f not in seen:
                        seen.append(f)
            setattr(self, name, seen)
        self.desc_is_flawed = bool(self.e_flags)


def _caller_edits(d):
    """The caller takes the breakdown of each tract's Twp/Rge/Sec through the conversion functions and edits what it
    got (its own copies, as far as it can tell).  Later descriptions of this worker process name the same sections."""
    import pytrs
    try:
        for t in list(d.tracts)[:4]:
            for got in (pytrs.trs_to_dict(t.trs), pytrs.TRS.trs_to_dict(t.trs), t.to_dict("trs", "twp", "rge", "sec", "twprge")):
                if isinstance(got, dict):
                    for k_ in list(got):
                        got[k_] = "EDITED"
    except Exception:  # noqa
        pass


def plss(case):
    a = case["args"]
    try:
        if a.get("view") == "dry_tracts":
            import pytrs
            d0 = pytrs.PLSSDesc(a["text"], config=a.get("config"), source=a.get("source", "SRC-1"), wait_to_parse=True)
            return plss_project(_DryView(d0, d0.parse(commit=False)), a)
        import zlib
        if zlib.crc32(str(case["id"]).encode()) % 3 == 0:
            # a third of the cases: the process has parsed the very same text before, with default settings
            try:
                import pytrs
                pytrs.PLSSDesc(a["text"])
            except Exception:  # noqa
                pass
        d = plss_make(a)
        post = a.get("post")
        if post == "parse_tracts":
            d.parse_tracts()
        elif post == "parse_tracts_twice":
            d.parse_tracts(clean_qq=True)
            d.parse_tracts()
        elif post == "reparse":
            d.parse()
        elif post == "tract_parse":
            for t in d.tracts:
                t.parse()
        elif post == "dry_run":
            # trying other settings without storing anything (the documented use of commit=False) leaves the flags alone
            d.parse(commit=False)
            d.parse(parse_qq=True, commit=False)
            for t in d.tracts:
                t.parse(commit=False)
        out = plss_project(d, a)
        _caller_edits(d)
        return out
    except Exception as e:  # noqa
        o = dict(EMPTY_OBS)
        o.update(_exc(e))
        import traceback
        o["raw"] = {"traceback": traceback.format_exc()[-600:]}
        return o


def plss_entry(case):
    """Other entry points (C03): only exception / tract count are observed."""
    import pytrs
    a = case["args"]
    o = dict(EMPTY_OBS)
    try:
        if a["entry"] == "plss_parse":
            d = pytrs.PLSSDesc(a["text"], config=a.get("config"), wait_to_parse=True)
            tl = d.parse(**(a.get("parse_kw") or {}))
            n = len(tl)
        elif a["entry"] == "tract_init":
            t = pytrs.Tract(a["text"], config=a.get("config"), parse_qq=True)
            n = 1
        elif a["entry"] == "tract_build":
            # the alternative constructor: Twp, Rge and Sec as separate components (ints, strings, or left out)
            t = pytrs.Tract.from_twprgesec(a["text"], *a.get("components", ()), config=a.get("config"), parse_qq=True)
            t.set_twprgesec(*(a.get("components2") or (154, 97, 14)))
            n = 1
        else:
            t = pytrs.Tract(a["text"], config=a.get("config"))
            t.parse(**(a.get("parse_kw") or {}))
            t.parse(commit=False)
            n = 1
        o["exc"] = "none"
        # one dummy well-formed tract per produced tract so that AtLeastOneTract can be evaluated
        o["tracts"] = [{"trs": list("XXXzXXXzXX"), "whole": False, "verbatim": False, "orig_ok": True, "source_ok": True, "index": i,
                        "markers": [], "wflags": [], "eflags": [], "wfirsts": [], "efirsts": [], "typed": True,
                        "attrs": {}} for i in range(min(n, 3))]
        o["raw"] = {"n": n}
        return o
    except Exception as e:  # noqa
        o.update(_exc(e))
        import traceback
        o["raw"] = {"traceback": traceback.format_exc()[-600:]}
        return o


def argcheck(case):
    import pytrs
    k = case["args"]["kind"]
    calls = {
        "text_int": lambda: pytrs.PLSSDesc(123),
        "text_none": lambda: pytrs.PLSSDesc(None),
        "text_bytes": lambda: pytrs.PLSSDesc(b"T154N-R97W Sec 14: NE/4"),
        "text_list": lambda: pytrs.PLSSDesc(["T154N-R97W Sec 14: NE/4"]),
        "config_int": lambda: pytrs.PLSSDesc("T154N-R97W Sec 14: NE/4", config=5),
        "config_list": lambda: pytrs.PLSSDesc("T154N-R97W Sec 14: NE/4", config=["clean_qq"]),
        "config_unknown_name": lambda: pytrs.PLSSDesc("T154N-R97W Sec 14: NE/4", config="no_such_setting"),
        "config_unknown_kv": lambda: pytrs.PLSSDesc("T154N-R97W Sec 14: NE/4", config="clean_qq,bogus.True"),
        "default_ns_bad": lambda: pytrs.PLSSDesc("T154-R97W Sec 14: NE/4", config="default_ns.q"),
        "default_ew_bad": lambda: pytrs.PLSSDesc("T154N-R97 Sec 14: NE/4", config="default_ew.q"),
        "tract_config_int": lambda: pytrs.Tract("NE/4", config=5),
        "tract_config_unknown": lambda: pytrs.Tract("NE/4", config="no_such_setting"),
        "tract_trs_int": lambda: pytrs.Tract("NE/4", trs=15497),
        "parse_default_ns_bad": lambda: pytrs.PLSSDesc("T154-R97W Sec 14: NE/4", wait_to_parse=True).parse(default_ns="q"),
        "config_object_ok": lambda: pytrs.PLSSDesc("T154N-R97W Sec 14: NE/4", config=pytrs.Config("clean_qq,n,w")),
        "config_none_ok": lambda: pytrs.Tract("NE/4", config=None, parse_qq=True),
    }
    try:
        calls[k]()
        return {"exc": "none", "bases": []}
    except Exception as e:  # noqa
        return {"exc": type(e).__name__, "bases": [c.__name__ for c in type(e).__mro__], "exc_msg": str(e)[:200]}


# ---------------------------------------------------------------------------
# C13: configuration codec and precedence

CFG_SETTINGS = ["default_ns", "default_ew", "layout", "wait_to_parse", "parse_qq", "clean_qq", "sec_colon_required",
                "sec_colon_cautious", "suppress_lot_divs", "ocr_scrub", "segment", "qq_depth", "qq_depth_min",
                "qq_depth_max", "break_halves", "sec_within"]
CFG_BOOLS = {"wait_to_parse", "parse_qq", "clean_qq", "sec_colon_required", "sec_colon_cautious", "suppress_lot_divs",
             "ocr_scrub", "segment", "break_halves", "sec_within"}
CFG_INTS = {"qq_depth", "qq_depth_min", "qq_depth_max"}


def _cfg_py(s, v):
    """abstract value string -> python value"""
    if s in CFG_BOOLS:
        return v == "True"
    if s in CFG_INTS:
        return int(v)
    return v


def _cfg_abs(v):
    if v is None:
        return "unset"
    return str(v)


def _cfg_text_token(s, v):
    if s in CFG_BOOLS:
        return s if v == "True" else "%s.False" % s
    if s in ("default_ns", "default_ew"):
        return v
    return "%s.%s" % (s, v)


def c13_codec(case):
    import pytrs
    a = case["args"]
    cfg = a["cfg"]
    setd = {s: v for s, v in cfg.items() if v != "unset"}
    try:
        if a["via"] == "text":
            toks = [_cfg_text_token(s, v) for s, v in setd.items()]
            if a.get("bare_layout") and "layout" in setd:
                toks = [t if not t.startswith("layout.") else t[7:] for t in toks]
            sep = a.get("sep", ",")
            pad = a.get("pad", "")
            c = pytrs.Config(pad + sep.join(toks) + pad)       # blanks / line breaks around the text are no setting
        elif a["via"] == "dict":
            c = pytrs.Config.from_dict({s: _cfg_py(s, v) for s, v in setd.items()})
        else:
            c = pytrs.Config.from_kwargs(**{s: _cfg_py(s, v) for s, v in setd.items()})
        direct = {s: _cfg_abs(getattr(c, s)) for s in CFG_SETTINGS}
        text = c.decompile_to_text()
        c2 = pytrs.Config(text)
        c3 = pytrs.Config(c2)          # a Config given to Config()
        back = {s: _cfg_abs(getattr(c2, s)) for s in CFG_SETTINGS}
        back3 = {s: _cfg_abs(getattr(c3, s)) for s in CFG_SETTINGS}
        if direct != back or back3 != back:
            # report the first disagreement through obs
            for s in CFG_SETTINGS:
                if direct[s] != cfg.get(s, "unset"):
                    back[s] = direct[s]
                elif back3[s] != back[s]:
                    back[s] = back3[s]
        return {"exc": "none", "obs": back, "text": text}
    except Exception as e:  # noqa
        return _exc(e)


def c13_unknown(case):
    import pytrs
    a = case["args"]
    try:
        if a["via"] == "text":
            pytrs.Config(a["text"])
        elif a["via"] == "plss":
            pytrs.PLSSDesc("T154N-R97W Sec 14: NE/4", config=a["text"])
        else:
            pytrs.Tract("NE/4", config=a["text"])
        return {"exc": "none"}
    except Exception as e:  # noqa
        return _exc(e)


C13_TEXTS = {
    "default_ns": "T154-R97W Sec 14: NE/4", "default_ew": "T154N-R97 Sec 14: NE/4",
    "layout": "T154N-R97W Sec 14: NE/4, Sec 15: W/2",
    "wait_to_parse": "T154N-R97W Sec 14: NE/4", "parse_qq": "T154N-R97W Sec 14: NE/4",
    "clean_qq": "T154N-R97W Sec 14: NE", "sec_colon_required": "T154N-R97W Sec 14 NE/4, Sec 15: W/2",
    "sec_colon_cautious": "T154N-R97W Sec 14 NE/4, Sec 15 W/2",
    "suppress_lot_divs": "T154N-R97W Sec 14: N/2 of Lot 1, Lot 2", "ocr_scrub": "TIS4N-R97W Sec 14: NE/4",
    "segment": "QXJVZK T154N-R97W Sec 14: NE/4, W/2 of Sec 15, T155N-R97W",
    "qq_depth": "T154N-R97W Sec 14: N½N½S½NE¼NW¼, NE¼N½, N½E½SW¼", "qq_depth_min": "T154N-R97W Sec 14: N½N½S½, NE¼N½",
    "qq_depth_max": "T154N-R97W Sec 14: N½NE¼NW¼SE¼SW¼, NE¼N½SE¼, N½E½SW¼SW¼", "break_halves": "T154N-R97W Sec 14: N½N½NE¼, NE¼N½",
    "sec_within": "T154N-R97W: That part of the NE/4 of Sec 13 lying within RoW",
}
C13_TRACT_TEXTS = {"parse_qq": "NE/4", "clean_qq": "NE", "suppress_lot_divs": "N/2 of Lot 1, Lot 2",
                   "qq_depth": "N½N½S½NE¼NW¼, NE¼N½, N½E½SW¼", "qq_depth_min": "N½N½S½, NE¼N½",
                   "qq_depth_max": "N½NE¼NW¼SE¼SW¼, NE¼N½SE¼, N½E½SW¼SW¼",
                   "break_halves": "N½N½NE¼, NE¼N½"}
# (the depth probes also hold chains written quarter-before-half and with halves of both axes: what the depth settings do
#  to them depends on the components being put in order first)
_TRACT_LEVEL = {"clean_qq", "suppress_lot_divs", "qq_depth", "qq_depth_min", "qq_depth_max", "break_halves"}


_C13_LAST_HASH = [0]


def c13_ref_hash(scn):
    """Hash of the complete projected result of one (reference) scenario - run in a fresh interpreter by the driver."""
    _c13_run(scn, {})
    return _C13_LAST_HASH[0]


def _c13_concrete(s, v):
    if s == "qq_depth_max":
        return int(v) + 1          # 2, 3, 4 (never below the default minimum)
    return _cfg_py(s, v)


def _c13_run(scn, table):
    import pytrs
    from pytrs import MasterConfig
    s, target = scn["s"], scn["target"]

    def val(ch):
        if scn["ch"] == ch:
            return scn["v"]
        if scn["ch2"] == ch and scn.get("s2", s) == s:
            return scn["v2"]
        return None

    s2 = scn.get("s2", s)

    def one(s_, v):
        cv = _c13_concrete(s_, v)
        if s_ in CFG_BOOLS:
            return s_ if cv else "%s.False" % s_
        if s_ in ("default_ns", "default_ew", "layout"):
            return cv
        return "%s.%d" % (s_, cv)

    def cfgtext(v):
        return None if v is None else one(s, v)

    def cfgtext_ch(ch):
        """config text of a channel: the setting itself and, in a related-settings scenario, the related one"""
        parts = []
        if scn["ch"] == ch or (scn["ch2"] == ch and s2 == s):
            parts.append(one(s, val(ch)))
        if scn["ch2"] == ch and s2 != s:
            parts.append(one(s2, scn["v2"]))
        return ",".join(parts) or None

    init_kw = {}
    if val("init_kw") is not None:
        init_kw[s] = _c13_concrete(s, val("init_kw"))
    parse_kw = {}
    if val("parse_kw") is not None:
        parse_kw[s] = _c13_concrete(s, val("parse_kw"))
    old = (MasterConfig.default_ns, MasterConfig.default_ew)
    try:
        if target == "tract" and s in ("default_ns", "default_ew"):
            # (the same components have been used before, under the MasterConfig defaults then in force)
            pytrs.Tract.from_twprgesec("NE/4", 154, 97, 14)
        if val("mc") is not None:
            setattr(MasterConfig, s, val("mc"))
        if target == "plss":
            text = C13_TEXTS[s]
            base_cfg = "parse_qq" if s in _TRACT_LEVEL else None
            ic = ",".join(x for x in (base_cfg, cfgtext_ch("init_config")) if x) or None
            if s == "wait_to_parse":
                d = pytrs.PLSSDesc(text, config=ic, **init_kw)
            elif scn.get("bulk"):
                # the later config text and the keyword handed to ONE call of the bulk entry point, which re-configures
                # and re-parses the tracts that exist ("the keyword parameters here will take priority over config")
                d = pytrs.PLSSDesc(text, config=ic, **init_kw)
                target_ = d if scn["bulk"] == "plss" else d.tracts
                target_.parse_tracts(config=cfgtext_ch("assign_config"), **parse_kw)
                if scn.get("again"):
                    target_.parse_tracts()
            else:
                d = pytrs.PLSSDesc(text, config=ic, wait_to_parse=True, **init_kw)
                if cfgtext_ch("assign_config") is not None:
                    d.config = cfgtext_ch("assign_config")
                d.parse(**parse_kw)
                if scn.get("again"):
                    d.parse()
            proj = (d.current_layout, d.pp_desc,
                    tuple((t.trs, t.desc, tuple(t.lots), tuple(t.qqs), t.parse_complete) for t in d.tracts),
                    tuple(sorted(map(repr, d.w_flags))), tuple(sorted(map(repr, d.e_flags))))
        elif s in ("default_ns", "default_ew"):
            # a Tract reads the default directions when it is built from components that lack them
            t = pytrs.Tract.from_twprgesec("NE/4", 154, 97, 14, config=cfgtext_ch("init_config"), **init_kw)
            proj = (t.trs, t.twp, t.rge)
        else:
            text = C13_TRACT_TEXTS[s]
            if scn.get("ctor") == "components":
                # the other constructor: "parameters are the same as __init__()"
                t = pytrs.Tract.from_twprgesec(text, 154, "97w", "14", config=cfgtext_ch("init_config"), **init_kw)
            else:
                t = pytrs.Tract(text, "154n97w14", config=cfgtext_ch("init_config"), **init_kw)
            if cfgtext_ch("assign_config") is not None:
                t.config = cfgtext_ch("assign_config")
            if s != "parse_qq":
                t.parse(**parse_kw)
                if scn.get("again"):
                    t.parse()
            proj = (t.trs, t.pp_desc, tuple(t.lots), tuple(t.qqs), t.parse_complete, tuple(sorted(map(repr, t.w_flags))))
        _C13_LAST_HASH[0] = _h(proj)
        return table.setdefault(proj, len(table) + 1), "none", repr(proj)[:300]
    except Exception as e:  # noqa
        _C13_LAST_HASH[0] = 0
        return 0, type(e).__name__, str(e)[:200]
    finally:
        MasterConfig.default_ns, MasterConfig.default_ew = old


def c13_scenario(case):
    a = case["args"]
    table = {}
    fo, eo, ro = _c13_run(a["scn"], table)
    fr, er, rr = _c13_run(a["ref"], table)
    h_ref = _C13_LAST_HASH[0]
    default = dict(a["ref"], v=None, ch="none")
    default["ch"] = "none"
    fd, ed, rd = _c13_run({"target": a["scn"]["target"], "s": a["scn"]["s"], "v": "unset", "ch": "none",
                           "ch2": "none", "s2": a["scn"]["s"], "v2": "unset"}, table)
    return {"fp_obs": fo, "exc_obs": eo, "fp_ref": fr, "exc_ref": er, "fp_default": fd,
            "raw_obs": ro, "raw_ref": rr, "h_ref": h_ref}


# ---------------------------------------------------------------------------
# C14: object life-cycles

# (an exception clause under each of two Twp/Rges: the description-level warning 'less_except' is raised twice and
#  handed to every tract twice)
C14_PLSS_TEXT = ("T154-R97W Sec 15 NE, Lots 1, 1, N/2, less and except the road, Sec 14 Lots 5 - 3, NE, "
                 "T155N-R97W Sec 20 - 21 Lots 2, 2, NE, less and except the river, "
                 "Township lS5 North, Range 98 West Sec 1 NE")      # (the last Twp/Rge: only the OCR pattern reads it)
# (which duplicate flags there are depends on clean_qq and on the depth, so stale flags are visible)
C14_TRACT_TEXT = "Lots 1, 1, 5 - 3, NE, NE/4, N/2NE/4, SW"
_SETTING_ATTRS = ["default_ns", "default_ew", "layout", "wait_to_parse", "parse_qq", "clean_qq", "sec_colon_required",
                  "sec_colon_cautious", "suppress_lot_divs", "ocr_scrub", "segment", "qq_depth", "qq_depth_min",
                  "qq_depth_max", "break_halves", "sec_within"]
_TRACT_SETTING_ATTRS = ["default_ns", "default_ew", "parse_qq", "clean_qq", "suppress_lot_divs", "ocr_scrub", "qq_depth",
                        "qq_depth_min", "qq_depth_max", "break_halves"]


def _bag(xs):
    return tuple(sorted(repr(x) for x in xs))


def snap_tract(t):
    return (t.trs, t.desc, t.pp_desc, tuple(t.lots), tuple(t.qqs), tuple(t.lots_qqs), tuple(t.ilots),
            tuple(sorted(t.lot_acres.items())), tuple(t.aliquots_whole), _bag(t.w_flags), _bag(t.w_flag_lines),
            _bag(t.e_flags), _bag(t.e_flag_lines), t.parse_complete, t.orig_index, t.orig_desc, t.source,
            tuple(getattr(t, a, None) for a in _TRACT_SETTING_ATTRS), _cfg_text(t))


def _cfg_text(o):
    """the object's .config, as the text it stands for"""
    c = getattr(o, "config", None)
    try:
        return c if isinstance(c, str) or c is None else c.decompile_to_text()
    except Exception as e:  # noqa
        return "?" + type(e).__name__


def snap_plss(d):
    return (d.orig_desc, d.pp_desc, d.layout, d.current_layout, d.source, _cfg_text(d),
            tuple(getattr(d, a, None) for a in _SETTING_ATTRS), _bag(d.w_flags), _bag(d.w_flag_lines), _bag(d.e_flags),
            _bag(d.e_flag_lines), d.desc_is_flawed, tuple(snap_tract(t) for t in d.tracts))


def _h(x):
    import hashlib
    return int(hashlib.sha1(repr(x).encode("utf-8", "replace")).hexdigest()[:7], 16)


def _b(x):
    return x == "T"


def _tract_cfg(a):
    return "clean_qq.%s,qq_depth.%d" % (_b(a["clean"]), a["depth"])


def _plss_cfg(a):
    return "sec_colon_cautious.%s,parse_qq.%s,clean_qq.%s,%s" % (_b(a["cautious"]), _b(a["pq"]), _b(a["clean"]), a["ns"])


def c14(case):
    import pytrs
    a = case["args"]
    kind, ops = a["kind"], a["ops"]
    events = []
    obj = None
    for seq, op in enumerate(ops):
        ev = {"tid": case["id"], "seq": seq, "kind": kind, "op": op, "snap": 0, "ret": 0, "exc": "none"}
        try:
            name, kw = op["name"], op["kw"]
            ret = None
            if kind == "tract":
                if name == "new":
                    obj = pytrs.Tract(C14_TRACT_TEXT, "154n97w14", config=_tract_cfg(op["cfg"]))
                elif name == "parse":
                    k = {}
                    if kw["clean"] != "-":
                        k["clean_qq"] = _b(kw["clean"])
                    if kw["depth"]:
                        k["qq_depth"] = kw["depth"]
                    ret = tuple(obj.parse(commit=op["commit"], **k))
                elif name == "preprocess":
                    k = {}
                    if kw["clean"] != "-":
                        k["clean_qq"] = _b(kw["clean"])
                    ret = obj.preprocess(commit=op["commit"], **k)
                elif name == "config":
                    obj.config = _tract_cfg(op["cfg"])
                ev["snap"] = _h(snap_tract(obj))
            else:
                if name == "new":
                    obj = pytrs.PLSSDesc(C14_PLSS_TEXT, config=_plss_cfg(op["cfg"]), source="SRC")
                elif name == "parse":
                    k = {}
                    if kw["cautious"] != "-":
                        k["sec_colon_cautious"] = _b(kw["cautious"])
                    if kw["pq"] != "-":
                        k["parse_qq"] = _b(kw["pq"])
                    if kw["clean"] != "-":
                        k["clean_qq"] = _b(kw["clean"])
                    if kw["ns"] != "-":
                        k["default_ns"] = kw["ns"]
                    if kw.get("lay", "-") != "-":
                        k["layout"] = kw["lay"]
                    if kw.get("ocr", "-") != "-":
                        k["ocr_scrub"] = True
                    r = obj.parse(commit=op["commit"], **k)
                    ret = (tuple(snap_tract(t)[:16] for t in r),)
                elif name == "parse_tracts":
                    k = {}
                    if kw["clean"] != "-":
                        k["clean_qq"] = _b(kw["clean"])
                    if op["cfg"].get("lay", "-") == "bh":
                        k["config"] = "break_halves"
                    obj.parse_tracts(**k)
                elif name == "preprocess":
                    k = {}
                    if kw["ns"] != "-":
                        k["default_ns"] = kw["ns"]
                    ret = obj.preprocess(commit=op["commit"], **k)
                elif name == "config":
                    obj.config = _plss_cfg(op["cfg"])
                elif name == "sort":
                    obj.sort_tracts("s")
                elif name == "filter":
                    obj.filter(lambda t: t.sec == "14", drop=op["commit"])
                ev["snap"] = _h(snap_plss(obj))
            ev["ret"] = _h(ret) if ret is not None else 0
        except Exception as e:  # noqa
            ev["exc"] = type(e).__name__
            ev["exc_msg"] = str(e)[:200]
            events.append(ev)
            break
        events.append(ev)
    return {"events": events}


# ---------------------------------------------------------------------------
# C15: purity across histories

C15_KEYS = {"k1": "154n97w14", "k2": "155n98w01", "kerr": "XXXzXXXzXX"}
C15_OTHER = {"o1": "T154N-R97W Sec 14: NE/4, T155N-R98W Sec 1: Lots 1 - 3", "o2": "T155N-R98W Sec 1: W/2, Sec 0: that part",
             "o3": "TIS4N-R97W Sec 14: NE/4, T155N-R98W Sec 1: Lots 1 - 3", "o4": "T155N-R98W Sec 1: NE NW, SW, Sec 0: SE",
             "o5": "T155N-R98W Sec 1: N/2NE/4NE/4, S/2N/2NW/4SW/4, N/2E/2N/2E/2"}


_C15_HELD = [None]
_C15_CFG = [None]
C15_HELD_TEXT = "T154-R97W Sec 14: NE/4, Lots 1 - 3"


_C15_HELD_T = [None]


def c15_reset():
    import pytrs
    _C15_HELD[0] = None
    _C15_HELD_T[0] = None
    # the caller's settings object, reused for the whole history (a tract-level and a description-level setting)
    _C15_CFG[0] = pytrs.Config("clean_qq,sec_colon_cautious")
    pytrs.MasterConfig.default_ns = "n"
    pytrs.MasterConfig.default_ew = "w"
    pytrs.TRS._USE_CACHE = True
    pytrs.TRS._clear_cache()


def c15_probe(p):
    import pytrs
    if p == "plss_nodir":
        return snap_plss(pytrs.PLSSDesc("T154-R97W Sec 14: NE/4, Lots 1 - 3", parse_qq=True))
    if p == "plss_full":
        return snap_plss(pytrs.PLSSDesc("T154N-R97W Sec 14: NE/4, Sec 15: Lots 1, 1"))
    if p == "plss_qq":
        d = pytrs.PLSSDesc("T154N-R97W Sec 14: N/2NE/4, Lot 1 (38.12)", config="parse_qq,qq_depth.2")
        return (snap_plss(d), d.tracts_to_dict("trs", "twp", "sec_num", "qqs", "lots", "lot_acres", "w_flags"),
                d.tracts_to_list("trs", "qqs"))
    if p == "tract_build":
        t = pytrs.Tract.from_twprgesec("NE/4", 154, 97, 14, parse_qq=True)
        r = pytrs.TRS.from_twprgesec(154, 97, 14)
        return (snap_tract(t), r.trs, r.twp, r.rge)
    if p == "trs_attrs":
        r = pytrs.TRS("154n97w14")
        t = pytrs.Tract("NE/4", trs="154n97w14")
        return tuple((o.trs, o.twp, o.twp_num, o.twp_ns, o.rge, o.rge_num, o.rge_ew, o.sec, o.sec_num, o.twprge,
                      o.twp_undef, o.rge_undef, o.sec_undef) for o in (r, t)) + (r.pretty_twprge(), r.is_error(), r.is_undef())
    if p == "trs_dict":
        return (sorted(pytrs.trs_to_dict("154n97w14").items(), key=repr),
                sorted(pytrs.trs_to_dict(pytrs.TRS("154n97w14")).items(), key=repr),
                sorted(pytrs.Tract("NE/4", "154n97w14").to_dict("trs", "twp", "rge", "sec", "sec_num", "twprge").items(), key=repr))
    if p == "find_twprge":
        return (pytrs.find_twprge("T154-R97 Sec 14, T155N-R98W", preprocess=True), pytrs.find_sec("Sec 14, T155N-R98W"))
    if p == "plss_ocrlike":
        d = pytrs.PLSSDesc("TI54N-R97W Sec 14: NE/4, Township lS4 North, Range 97 West Sec 15: W/2")
        return (snap_plss(d), pytrs.find_twprge("TI54N-R97W and TlS4N-R97W", preprocess=True))
    if p == "tract_bareqq":
        t = pytrs.Tract("NE NW, SW of the SE, Lot 1", "154n97w14", parse_qq=True)
        return (snap_tract(t), t.preprocess())
    if p == "cfg_parse":
        # (no colon after the section: the description-level setting of the object shows as a warning)
        d = pytrs.PLSSDesc("T154-R97 Sec 14 NE, Lots 1 - 3", config=_C15_CFG[0], parse_qq=True)
        t = pytrs.Tract.from_twprgesec("N/2", 154, 97, 14, config=_C15_CFG[0])
        return (snap_plss(d), snap_tract(t), str(_C15_CFG[0]))
    if p == "tract_deep":
        t = pytrs.Tract("N/2NE/4NE/4, S/2N/2NW/4SW/4, N/2E/2N/2E/2", "154n97w14", parse_qq=True, config="qq_depth_max.3")
        u = pytrs.Tract("N/2NE/4NE/4, S/2N/2NW/4SW/4", "154n97w14", parse_qq=True, config="qq_depth_min.1,qq_depth_max.4,break_halves")
        return (snap_tract(t), snap_tract(u))
    if p == "held_tract":
        if _C15_HELD_T[0] is None:
            _C15_HELD_T[0] = pytrs.Tract(C14_TRACT_TEXT, "154n97w14")
        _C15_HELD_T[0].parse()
        return snap_tract(_C15_HELD_T[0])
    if p == "held_parse":
        if _C15_HELD[0] is None:
            _C15_HELD[0] = pytrs.PLSSDesc(C15_HELD_TEXT, wait_to_parse=True, parse_qq=True)
        _C15_HELD[0].parse()
        return snap_plss(_C15_HELD[0])
    if p == "trslist":
        l = pytrs.TRSList(["154n97w14", pytrs.TRS("154n97w14"), pytrs.Tract("x", "154n97w14")])
        return tuple((x.trs, x.twp_num, x.sec_num, x.twprge) for x in l) + (len(l.filter_duplicates()),)
    raise ValueError(p)


def _mutate_container(x):
    if isinstance(x, dict):
        for k in list(x):
            v = x[k]
            if isinstance(v, (list, dict)):
                _mutate_container(v)
            x[k] = "MUTATED"
        x["extra"] = "MUTATED"
    elif isinstance(x, list):
        for v in x:
            if isinstance(v, (list, dict)):
                _mutate_container(v)
        x.append("MUTATED")
        if len(x) > 1:
            x[0] = "MUTATED"


def c15_do(op):
    import pytrs
    name, a, b = op["name"], op["a"], op["b"]
    if name == "begin":
        c15_reset()
    elif name == "set_mc":
        pytrs.MasterConfig.default_ns = a
        pytrs.MasterConfig.default_ew = b
    elif name == "restore_mc":
        pytrs.MasterConfig.default_ns = "n"
        pytrs.MasterConfig.default_ew = "w"
    elif name == "clear_cache":
        pytrs.TRS._clear_cache()
    elif name == "use_cache":
        pytrs.TRS._USE_CACHE = (a == "on")
    elif name == "parse_other":
        cfg = {"o3": "ocr_scrub", "o4": "clean_qq", "o5": "qq_depth_max.3,break_halves"}.get(a)
        d = pytrs.PLSSDesc(C15_OTHER[a], parse_qq=True, config=cfg)
        d.tracts_to_dict("trs", "twp")
        if a == "o3":
            d.preprocess(ocr_scrub=True)
        if a == "o4":
            pytrs.find_twprge("TIS5N-R9BW and T1S5N-R98W", ocr_scrub=True)
            pytrs.Tract("NE NW of the SW", parse_qq=True, config="clean_qq").preprocess(clean_qq=True)
    elif name == "make_trs":
        pytrs.TRS(C15_KEYS[a])
        pytrs.Tract("NE/4", trs=C15_KEYS[a])
    elif name == "mutate":
        k = C15_KEYS[a]
        if b == "trs_to_dict_str":
            _mutate_container(pytrs.trs_to_dict(k))
        elif b == "trs_to_dict_obj":
            _mutate_container(pytrs.trs_to_dict(pytrs.TRS(k)))
            _mutate_container(pytrs.TRS.trs_to_dict(pytrs.TRS(k)))
        elif b == "tract_to_dict":
            t = pytrs.Tract("NE/4, Lots 1, 1", trs=k, parse_qq=True)
            _mutate_container(t.to_dict("trs", "twp", "sec_num", "qqs", "lots", "w_flags", "lot_acres"))
            _mutate_container(t.to_list("trs", "qqs", "w_flag_lines"))
        elif b == "tracts_to_dict":
            d = pytrs.PLSSDesc("T154N-R97W Sec 14: NE/4, Lots 1, 1, T155N-R98W Sec 1: W/2", parse_qq=True)
            for rec in d.tracts_to_dict("trs", "twp", "qqs", "w_flags"):
                _mutate_container(rec)
        elif b == "tracts_to_list":
            d = pytrs.PLSSDesc("T154N-R97W Sec 14: NE/4, Lots 1, 1, T155N-R98W Sec 1: W/2", parse_qq=True)
            for rec in d.tracts_to_list("trs", "qqs", "lots"):
                _mutate_container(rec)
        else:
            d = pytrs.PLSSDesc("T154N-R97W Sec 14 - 13: NE/4, Lots 1, 1", parse_qq=True)
            _mutate_container(d.w_flags)
            _mutate_container(d.tracts[0].w_flags)
            _mutate_container(d.tracts[0].qqs)
            g = d.tracts.group_by("twprge")
            _mutate_container(g)
    elif name == "ask_layout":
        # the layout of the probes' own texts, asked for with a restricted list of candidates (documented optional
        # argument) - through the method and through the module-level function
        from pytrs.parser import deduce_layout as _dl
        for txt in ("T154N-R97W Sec 14: NE/4, Sec 15: Lots 1, 1", "T154-R97W Sec 14: NE/4, Lots 1 - 3", C15_HELD_TEXT):
            pytrs.PLSSDesc(txt, wait_to_parse=True).deduce_layout(candidates=["desc_STR", "S_desc_TR"])
            _dl(txt, ["desc_STR", "S_desc_TR"])
            _dl(pytrs.PLSSDesc(txt, wait_to_parse=True).pp_desc, ["copy_all"])
    elif name == "use_cfg":
        pytrs.Tract.from_twprgesec("NE/4", 154, 97, 14, default_ns=a, default_ew=b, config=_C15_CFG[0], parse_qq=True)
        pytrs.TRS.from_twprgesec(154, 97, 14, default_ns=a, default_ew=b)
        # ... and to the entry points that re-configure the tracts of a description
        d0 = pytrs.PLSSDesc("T154N-R97W Sec 1: NE/4, Sec 2 W/2", config=_C15_CFG[0])
        d0.parse_tracts(config=_C15_CFG[0])
        d0.config_tracts(_C15_CFG[0])
        d0.tracts.config_tracts(_C15_CFG[0])
        pytrs.TractList(d0.tracts).parse_tracts(config=_C15_CFG[0], clean_qq=False)
    elif name == "bad_config":
        # the same ill-formed config text every time (an unknown setting after two valid ones), through the entry points
        # that compile config text; each must reject it - the exception of the last one is what the event records
        for make in (lambda: pytrs.Config("s,e,no_such_setting"),
                     lambda: pytrs.Tract("NE/4", "154n97w14", config="s,e,no_such_setting"),
                     lambda: pytrs.PLSSDesc("T154-R97 Sec 14: NE/4", config="s,e,no_such_setting")):
            try:
                make()
            except ValueError:
                continue
            raise AssertionError("an unknown setting name was accepted")
        pytrs.PLSSDesc("T154-R97 Sec 14: NE/4", config="s,e,no_such_setting")
    elif name == "dry_run":
        # previews: parse(commit=False) under other settings on the tract the caller keeps (created now if there is none)
        # and on the tracts of the kept description
        if _C15_HELD_T[0] is None:
            _C15_HELD_T[0] = pytrs.Tract(C14_TRACT_TEXT, "154n97w14")
        _C15_HELD_T[0].parse(commit=False, clean_qq=True, qq_depth=1)
        _C15_HELD_T[0].parse(commit=False)
        if _C15_HELD[0] is not None:
            _C15_HELD[0].parse(commit=False, clean_qq=True, qq_depth=1, parse_qq=True)
            for t_ in _C15_HELD[0].tracts:
                t_.parse(commit=False, qq_depth=1)
    elif name == "hold":
        _C15_HELD[0] = pytrs.PLSSDesc(C15_HELD_TEXT, wait_to_parse=True, parse_qq=True)
    elif name == "probe":
        return c15_probe(a)
    else:
        raise ValueError(name)
    return None


def c15(case):
    events = []
    try:
        for seq, op in enumerate([{"name": "begin", "a": "-", "b": "-"}] + case["args"]["ops"]):
            ev = {"tid": case["id"], "seq": seq, "op": op, "fp": 0, "exc": "none"}
            try:
                r = c15_do(op)
                if op["name"] == "probe":
                    ev["fp"] = _h(r)
            except Exception as e:  # noqa
                ev["exc"] = type(e).__name__
                ev["exc_msg"] = str(e)[:200]
                events.append(ev)
                if op["name"] == "bad_config" and isinstance(e, ValueError):
                    continue            # (the expected rejection: the history goes on)
                break
            events.append(ev)
    finally:
        c15_reset()
    return {"events": events}


# ---------------------------------------------------------------------------
# C18: containers

C18_TRS = {9: "0n0w00", 1: "154n97w14", 2: "154n97w15", 3: "155n97w14", 4: "XXXz97w14", 5: "154n97wXX", 6: "154n97w__",
           7: "___z97wXX", 8: "XXXzXXXzXX"}
C18_DESC = {(1, 1): "NE/4", (2, 1): "E/2NE/4, W/2NE/4", (1, 0): "NE/4", (3, 2): "SW/4", (1, 2): "SW/4 ",
            (4, 3): "That part lying north of the river", (5, 3): "A strip of land along the county road"}


def _c18_build(lst, container):
    import pytrs
    made = {}
    objs = []
    for e in lst:
        key = e["inst"]
        if key not in made:
            if container == "TRSList":
                made[key] = pytrs.TRS(C18_TRS[e["trs"]])
            else:
                desc = C18_DESC.get((e["pp"], e["lq"]), "NE/4")
                made[key] = pytrs.Tract(desc, trs=C18_TRS[e["trs"]], parse_qq=bool(e["parsed"]))
        objs.append(made[key])
    cls = pytrs.TRSList if container == "TRSList" else pytrs.TractList
    return cls(objs), objs


def _positions(result, objs, used=None):
    """For every element of result: the position (1-based) of the FIRST occurrence of that very object in objs
    (0 when it is not one of them).  Repeated instances are indistinguishable, so they share a representative;
    the trace specification maps its expected positions through the same representative function."""
    out = []
    for x in result:
        p = 0
        for j, o in enumerate(objs):
            if o is x:
                p = j + 1
                break
        out.append(p)
    return out


def c18_filter(case):
    import pytrs
    a = case["args"]
    try:
        lst, objs = _c18_build(a["lst"], a["container"])
        op = a["op"]
        target = lst
        if a["container"] == "PLSSDesc":
            target = pytrs.PLSSDesc("T1N-R1W Sec 1: NE/4")
            target.tracts = lst
        if op["name"] == "filter":
            fn = {"g1_is_x": lambda t: t.twp == "154n", "parsed": lambda t: bool(getattr(t, "parse_complete", False)),
                  "all": lambda t: True, "none": lambda t: False}[op["pred"]]
            res = target.filter(fn, drop=op["drop"])
        elif op["name"] == "filter_errors":
            c = op["crit"]
            res = target.filter_errors(twp=c["twp"], rge=c["rge"], sec=c["sec"], undef=c["undef"], drop=op["drop"])
        else:
            m = op["method"]
            if a.get("use_default"):
                m = "default"
            res = target.filter_duplicates(method=m, drop=op["drop"])
        after = list(target.tracts) if a["container"] == "PLSSDesc" else list(lst)
        return {"exc": "none", "sel": _positions(res, objs), "rest": _positions(after, objs),
                "type_ok": type(res).__name__ in ("TractList", "TRSList")}
    except Exception as e:  # noqa
        return _exc(e)


def c18_group(case):
    import pytrs
    a = case["args"]
    try:
        lst, objs = _c18_build(a["lst"], a["container"])
        numeric = bool(a.get("numeric"))
        # (numeric: grouped by the numbers instead of the strings - township 0 and section 0 are values like any other)
        attrs = [({"g1": "twp_num", "g2": "sec_num"} if numeric else {"g1": "twp", "g2": "sec"})[x] for x in a["attrs"]]
        arg = attrs if (len(attrs) > 1 or a.get("as_list")) else attrs[0]
        cls = type(lst)
        how = a.get("how", "method")
        if how == "into" and len(lst) >= 2:
            # grouped in two batches: the second batch goes `into` the dict of the first (documented parameter)
            half = len(lst) // 2
            first, second = cls(list(lst)[:half]), cls(list(lst)[half:])
            dct = first.group_by_nested(arg) if a["nested"] else first.group_by(arg)
            ret = second.group_by_nested(arg, into=dct) if a["nested"] else second.group_by(arg, into=dct)
            if ret is not dct:
                raise AssertionError("group_by(into=d) returned another dict")
        elif how == "into_empty":
            # an accumulator that is still empty: the caller keeps ITS dict and ignores what the call returns
            dct = {}
            if a.get("into_via") == "function" and cls is pytrs.TractList and not a["nested"]:
                pytrs.group_tracts_by(list(lst), arg, into=dct)
            elif a["nested"]:
                lst.group_by_nested(arg, into=dct)
            else:
                lst.group_by(arg, into=dct)
        elif how == "function" and cls is pytrs.TractList and not a["nested"]:
            dct = pytrs.group_tracts_by(list(lst), arg)         # the module-level function, on a plain list
        elif how == "plss" and cls is pytrs.TractList:
            dd = pytrs.PLSSDesc("T1N-R1W Sec 1: NE/4")
            dd.tracts = lst
            dct = dd.group_by_nested(arg) if a["nested"] else dd.group_by(arg)
        elif how == "sorted":
            # sort_key='i' sorts every group by creation order - which is the order the elements were built in
            dct = lst.group_by_nested(arg, sort_key="i") if a["nested"] else lst.group_by(arg, sort_key="i")
        elif a["nested"]:
            dct = lst.group_by_nested(arg)
        else:
            dct = lst.group_by(arg)
        val = {"154n": "x", "155n": "y", "XXXz": "z", "___z": "w", "0n": "v", "14": "p", "15": "q", "XX": "r", "__": "s", "00": "t"}
        groups = []

        def walk(d, path):
            for k, v in d.items():
                if isinstance(v, dict):
                    walk(v, path + [k])
                else:
                    key = list(k) if isinstance(k, tuple) else path + [k]
                    if numeric:
                        tabs = {"twp_num": {154: "x", 155: "y", 0: "v"}, "sec_num": {14: "p", 15: "q", 0: "t"}}
                        groups.append({"key": [tabs[attrs[j]].get(x, "?" + str(x)) if j < len(attrs) else "?" for j, x in enumerate(key)],
                                       "members": list(v)})
                        continue
                    groups.append({"key": [val.get(x, "?" + str(x)) for x in key], "members": list(v)})
        walk(dct, [])
        unpacked = cls.unpack_group(dct)
        for g in groups:
            g["members"] = _positions(g["members"], objs)
        return {"exc": "none", "groups": groups, "unpacked": _positions(unpacked, objs)}
    except Exception as e:  # noqa
        return _exc(e)


def _c18_item(kind):
    import pytrs
    if kind == "tract":
        return pytrs.Tract("NE/4", trs="154n97w14"), ["154n97w14"]
    if kind == "trs":
        return pytrs.TRS("155n97w01"), ["155n97w01"]
    if kind == "str":
        return "156n97w02", ["156n97w02"]
    if kind == "int":
        return 5, None
    if kind == "none":
        return None, None
    if kind == "float":
        return 1.5, None
    if kind == "plssdesc":
        return pytrs.PLSSDesc("T157N-R97W Sec 3: NE/4, Sec 4: W/2"), ["157n97w03", "157n97w04"]
    if kind == "list_of_tracts":
        return [pytrs.Tract("a", trs="158n97w05"), pytrs.Tract("b", trs="158n97w06")], ["158n97w05", "158n97w06"]
    if kind == "tractlist":
        return pytrs.TractList([pytrs.Tract("a", trs="159n97w07"), pytrs.Tract("b", trs="159n97w08")]), ["159n97w07", "159n97w08"]
    if kind == "trslist":
        return pytrs.TRSList(["160n97w09", "160n97w10"]), ["160n97w09", "160n97w10"]
    if kind == "dict":
        return {"a": 1}, None
    raise ValueError(kind)


def c18_entry(case):
    import pytrs
    a = case["args"]
    target, path, kinds = a["target"], a["path"], a["items"]
    cls = pytrs.TractList if target == "TractList" else pytrs.TRSList
    elem_cls = pytrs.Tract if target == "TractList" else pytrs.TRS
    try:
        base_items = [pytrs.Tract("z", trs="150n90w01"), pytrs.Tract("y", trs="150n90w02")]
        base_trs = ["150n90w01", "150n90w02"]
        items, want = [], []
        for k in kinds:
            it, trs = _c18_item(k)
            items.append(it)
            want += trs or ["?"]
        itb = a.get("iterable", "list")
        if itb == "tuple":
            arg = tuple(items)
        elif itb == "generator":
            arg = (x for x in items)
        else:
            arg = list(items)
        if path == "ctor":
            out = cls(arg)
            expect = want
        elif path == "extend":
            out = cls(base_items)
            out.extend(arg)
            expect = base_trs + want
        elif path == "iadd":
            out = cls(base_items)
            out += arg
            expect = base_trs + want
        elif path == "add":
            out = cls(base_items) + arg
            expect = base_trs + want
        elif path == "append":
            out = cls(base_items)
            for it in items:
                out.append(it)
            expect = base_trs + want
        elif path == "insert":
            out = cls(base_items)
            for it in items:
                out.insert(1, it)
            expect = [base_trs[0]] + list(reversed(want)) + [base_trs[1]]
        elif path == "setitem":
            out = cls(base_items)
            out[1] = items[0]
            expect = [base_trs[0]] + want[:1]
        else:
            # several arguments, or one (possibly one-shot, possibly nested) iterable of them
            if itb == "generator":
                out = cls.from_multiple(x for x in items)
            elif itb == "nested_iter":
                out = cls.from_multiple(iter(items[:1] + [iter(items[1:])]))
            elif itb == "tuple":
                out = cls.from_multiple(tuple(items))
            else:
                out = cls.from_multiple(*items)
            expect = want
        got = [getattr(x, "trs", None) for x in out]
        return {"exc": "none", "len": len(out), "types_ok": all(isinstance(x, elem_cls) for x in out),
                "order_ok": got == expect, "got": got}
    except Exception as e:  # noqa
        return _exc(e)


# C18: the container as a mutable sequence (spec/ContainerSM.tla) - one event per call, with the lists before and after
C18_SM_TRS = {1: "154n97w14", 2: "154n97w15", 3: "7s12e05"}


def c18_sm(case):
    import pytrs
    a = case["args"]
    trslist = a["container"] == "TRSList"
    cls = pytrs.TRSList if trslist else pytrs.TractList
    tracts = {k: pytrs.Tract("NE/4", trs=v) for k, v in C18_SM_TRS.items()}
    ident = {id(t): k for k, t in tracts.items()}
    byname = {v: k for k, v in C18_SM_TRS.items()}

    def good(k, form):
        if not trslist:
            return tracts[k]
        return {"trs": pytrs.TRS(C18_SM_TRS[k]), "str": C18_SM_TRS[k], "tract": tracts[k]}[form]

    def bad(kind):
        return {"trs": pytrs.TRS("154n97w14"), "str": "154n97w14", "int": 5, "none": None, "float": 2.5,
                "list": [tracts[1]], "plss": pytrs.PLSSDesc("T154N-R97W Sec 14: NE/4")}[kind]

    def ids(lst):
        if lst is None:
            return []
        out = []
        for e in lst:
            if trslist:
                out.append(byname.get(getattr(e, "trs", None), 99) if type(e) is pytrs.TRS else 98)
            else:
                out.append(ident.get(id(e), 99))
        return out

    def elem(k, op):
        return bad(op.get("bad", "int")) if k == 0 else good(k, op.get("gform", "trs"))

    def iterable(op):
        items = [elem(k, op) for k in op["it"]]
        form = op.get("form", "list")
        if form == "tuple":
            return tuple(items)
        if form == "generator":
            return (z_ for z_ in items)
        if form == "container" and all(k != 0 for k in op["it"]):
            return cls(items)
        return items

    X = Y = Z = None
    events = []
    for seq, op in enumerate(a["ops"]):
        pre = {"x": ids(X), "y": ids(Y), "z": ids(Z), "hasY": Y is not None, "hasZ": Z is not None}
        ev = {"id": "%s.%d" % (case["id"], seq), "op": {k: op[k] for k in ("name", "tgt", "i", "e", "it")}, "pre": pre,
              "exc": "none", "ret": []}
        n, tgt = op["name"], op["tgt"]
        try:
            if n == "new":
                X = cls(iterable(op))
            elif tgt == "y":
                if Y is not None:
                    if n == "append":
                        Y.append(elem(op["e"], op))
                    elif n == "reverse":
                        Y.reverse()
                    else:
                        ev["ret"] = ids([Y.pop()])
            elif tgt == "z":
                if Z is not None:
                    if n == "append":
                        Z.append(pytrs.TRS(C18_SM_TRS[op["e"]]) if trslist else tracts[op["e"]])
                    else:
                        ev["ret"] = ids([Z.pop()])
            elif n == "append":
                X.append(elem(op["e"], op))
            elif n == "extend":
                X.extend(iterable(op))
            elif n == "iadd":
                X0 = X
                X += iterable(op)
                if X is not X0:
                    raise AssertionError("+= returned another object")
            elif n == "add":
                Y = X + iterable(op)
            elif n == "radd":
                left = [elem(k, op) for k in op["it"]]
                Y = (tuple(left) if op.get("form") == "tuple" else left) + X
            elif n == "extend_str":
                X.extend("154n97w14")
            elif n == "extend_self":
                X.extend(X)
            elif n == "iadd_self":
                X += X
            elif n == "extend_y":
                if Y is not None:
                    X.extend(Y)
            elif n == "imul":
                X *= op["i"]
            elif n == "mul":
                Y = X * op["i"]
            elif n == "insert":
                X.insert(op["i"], elem(op["e"], op))
            elif n == "setitem":
                X[op["i"]] = elem(op["e"], op)
            elif n == "pop":
                ev["ret"] = ids([X.pop(op["i"]) if op["i"] != -1 or op.get("form") == "tuple" else X.pop()])
            elif n == "reverse":
                X.reverse()
            elif n == "copy":
                Y = X.copy()
            elif n == "tolist":
                Z = X.to_standard_list()
            elif n == "slice":
                Z = X[op["i"]:op["i"] + 2]
                if not isinstance(Z, list):
                    Z = list(Z)
            elif n == "eq_y":
                ev["ret"] = [1 if (Y is not None and X == Y) else 0]
            elif n in ("filter_keep", "filter_drop"):
                Y = X.filter(lambda e_: ids([e_]) == [1], drop=(n == "filter_drop"))
            else:
                raise ValueError(n)
            if Y is not None and tgt == "x" and n in ("add", "radd", "mul", "copy", "filter_keep", "filter_drop") and type(Y) is not cls:
                ev["ret"] = [97]
        except Exception as e:  # noqa
            ev["exc"] = type(e).__name__
            ev["exc_msg"] = str(e)[:200]
        ev["post"] = {"x": ids(X), "y": ids(Y), "z": ids(Z), "hasY": Y is not None, "hasZ": Z is not None}
        events.append(ev)
        if X is None:
            break
    return {"events": events}


# ---------------------------------------------------------------------------
# C19: bulk export

C19_DESCS = {
    1: 'T154N-R97W Sec 14: Lots 1 - 3, Lot 4 (38.12), NE/4, the "old" road; thence north, Sec 15: W/2\n  second line, '
       'T155N-R97W Sec 1: Lots 5 - 3, 2, 2, less and except the wellbore',
    2: 'T7S-R12E Sec 5: That part, lying "north" of the river',
}


def _c19_objs():
    import pytrs
    return {d: pytrs.PLSSDesc(t, parse_qq=True, source="src,%d" % d) for d, t in C19_DESCS.items()}


def _leaves(v):
    if isinstance(v, dict):
        out = []
        for k, x in v.items():
            out += [str(k)] + _leaves(x)
        return out
    if isinstance(v, (list, tuple)):
        out = []
        for x in v:
            out += _leaves(x)
        return out
    return [str(v)]


def _cell_ok(cell, value):
    if isinstance(value, (list, tuple, dict)):
        pos = 0
        for leaf in _leaves(value):
            i = cell.find(leaf, pos)
            if i < 0:
                return False
            pos = i + len(leaf)
        return True
    if value is None:
        return cell in ("", "None")
    return cell == str(value)


def c19_file(case):
    import csv
    import os
    import tempfile
    import pytrs
    from pytrs.tractwriter import TractWriter
    a = case["args"]
    attrs = a["attrs"]
    nice = a.get("nice")
    nh = {"none": False, "true": True, "list": ["H%d" % i for i in range(len(attrs))],
          "dict": {x: "col_" + x for x in attrs[::2]}}[nice]
    objs = _c19_objs()
    events = []
    td = tempfile.mkdtemp(prefix="c19_")
    fp = os.path.join(td, "out.csv")
    tw = None
    try:
        base_header = pytrs.Tract.get_headers(list(attrs), nh)      # (the library never gets the harness's own list)
        plus_heads = ["Extra one", "extra_2"]
        plus_vals = {1: ["lease 7", "x,\"y\""], 2: ["", "second\nline"]}
        headers = {0: [base_header, base_header + ["UID"]], 9: [base_header + plus_heads, base_header + plus_heads + ["UID"]]}
        ident = {}
        for d, o in objs.items():
            for i, t in enumerate(o.tracts, start=1):
                ident[(t.trs, t.desc)] = (d, i, t)

        def alpha(s_):
            n = 0
            for ch in s_:
                if not ("a" <= ch <= "z"):
                    return -1
                n = n * 26 + (ord(ch) - 96)
            return n

        def parse_uid(cell):
            m = re.fullmatch(r"(\d{4,})\.([a-z]+)-([a-z]+)", cell)
            return [int(m.group(1)), alpha(m.group(2)), alpha(m.group(3))] if m else [-1, -1, -1]
        ti, di = attrs.index("trs"), attrs.index("desc")

        def read_back():
            if not os.path.exists(fp):
                return [], [], True, []
            if tw is not None and tw.is_open:
                tw.file.flush()
            with open(fp, newline="") as f:
                got = list(csv.reader(f))
            rows, uids, ok, ptags = [], [], True, []
            for r in got:
                if r in headers[0] or r in headers[9]:
                    rows.append([0, 0])
                    uids.append([0, 0, 0])
                    ptags.append(9 if r in headers[9] else 0)
                    continue
                key = (r[ti], r[di]) if len(r) > max(ti, di) else None
                if key in ident:
                    d, i, t = ident[key]
                    rows.append([d, i])
                    extras = r[len(attrs):]
                    if extras and parse_uid(extras[-1])[0] >= 0:
                        uids.append(parse_uid(extras[-1]))
                        extras = extras[:-1]
                    else:
                        uids.append([0, 0, 0])
                    # which additional cells: none, one of the two value sets, or something else (-1)
                    ptags.append(0 if not extras else next((k for k, v in plus_vals.items() if extras == v), -1))
                    for j, att in enumerate(attrs):
                        val = getattr(t, att, "%s: n/a" % att)
                        if j >= len(r) or not _cell_ok(r[j], val):
                            ok = False
                else:
                    rows.append([-1, -1])
                    uids.append([0, 0, 0])
                    ptags.append(0)
            return rows, uids, ok, ptags

        for seq, op in enumerate(a["ops"]):
            ev = {"tid": case["id"], "seq": seq, "kind": "file", "op": op, "rows": [], "uids": [], "ptags": [],
                  "ret": {"kind": "none", "n": 0}, "cells_ok": True, "exc": "none"}
            try:
                name = op["name"]
                if name == "start":
                    if op["mode"] == "exists":
                        objs[2].tracts_to_csv(list(attrs), fp, "w", nice_headers=nh)
                elif name == "csv":
                    # through the PLSSDesc wrapper or directly on its TractList
                    tgt = objs[op["d"]] if (seq + len(attrs)) % 2 else objs[op["d"]].tracts
                    tgt.tracts_to_csv(list(attrs), fp, op["mode"], nice_headers=nh)
                elif name == "winit":
                    tw = TractWriter(list(attrs), fp, op["mode"], nice_headers=nh, uid=(op["d"] or None),
                                     plus_cols=(list(plus_heads) if op.get("p") else None))
                elif name == "wwrite":
                    pv = plus_vals.get(op.get("p", 0))
                    what = None
                    if op["d"]:
                        # the documented kinds of input: a PLSSDesc, a TractList, a list / generator of Tracts, a list
                        # holding the PLSSDesc, a single Tract (description 2 has one tract)
                        o_ = objs[op["d"]]
                        forms = [o_, o_.tracts, list(o_.tracts), (t_ for t_ in o_.tracts), [o_]]
                        if len(o_.tracts) == 1:
                            forms.append(o_.tracts[0])
                        what = forms[(seq + len(attrs)) % len(forms)]
                    n = tw.write(what, plus_cols=(list(pv) if pv else None))
                    ev["ret"] = {"kind": "count", "n": n}
                elif name == "wwrite_bad":
                    # a list (or generator) whose last element is neither a description nor a tract
                    o_ = objs[op["d"]]
                    junk = ["not a tract", 5, None, {"a": 1}][(seq + len(attrs)) % 4]
                    items = [o_, junk] if seq % 2 else list(o_.tracts) + [junk]
                    n = tw.write((x_ for x_ in items) if seq % 3 == 0 else items)
                    ev["ret"] = {"kind": "count", "n": n}
                elif name == "wclose":
                    tw.close()
                elif name == "wopen":
                    tw.open()
            except Exception as e:  # noqa
                ev["exc"] = type(e).__name__
                ev["exc_msg"] = str(e)[:200]
            ev["rows"], ev["uids"], ev["cells_ok"], ev["ptags"] = read_back()
            events.append(ev)
    finally:
        try:
            if tw is not None and tw.is_open:
                tw.close()
        except Exception:  # noqa
            pass
        import shutil
        shutil.rmtree(td, ignore_errors=True)
    return {"events": events}


def c19_records(case):
    import pytrs
    a = case["args"]
    attrs, form = a["attrs"], a["form"]
    objs = _c19_objs()
    d = objs[a["d"]]
    target = d if a["via"] == "plss" else d.tracts
    ev = {"tid": case["id"], "kind": "records", "form": form, "n_tracts": len(d.tracts), "n_records": -1,
          "order_ok": False, "keys_ok": False, "values_ok": False, "unknown_ok": False, "exc": "none"}
    try:
        # the names may be given one by one, as one list, or mixed (a group of names followed by single names);
        # the columns are in reading order of the names in every case
        shape = a.get("shape") or ("list" if a.get("as_list") else "star")
        if shape == "list":
            call = (list(attrs),)
        elif shape == "group_first" and len(attrs) > 2:
            call = (list(attrs[:2]),) + tuple(attrs[2:])
        elif shape == "group_middle" and len(attrs) > 3:
            call = (attrs[0], (attrs[1], attrs[2])) + tuple(attrs[3:])
        elif shape == "nested_list" and len(attrs) > 2:
            call = ([list(attrs[:2])] + list(attrs[2:]),)
        else:
            call = tuple(attrs)
        if a["via"] == "tract":
            # the single-tract forms, tract by tract
            recs = [(t.to_dict(*call) if "dict" in form else t.to_list(*call)) for t in d.tracts]
        elif form == "to_dict":
            recs = target.tracts_to_dict(*call)
        elif form == "to_list":
            recs = target.tracts_to_list(*call)
        elif form == "iter_to_dict":
            recs = list(target.iter_to_dict(*call))
        else:
            recs = list(target.iter_to_list(*call))
        ev["n_records"] = len(recs)
        order = keys = values = unknown = True
        for t, r in zip(d.tracts, recs):
            if "dict" in form:
                if list(r.keys()) != list(dict.fromkeys(attrs)):        # (a name asked for twice is one key)
                    keys = False
                vals = [r.get(x) for x in attrs]
            else:
                if len(r) != len(attrs):
                    keys = False
                vals = list(r)
            for att, v in zip(attrs, vals):
                if hasattr(t, att):
                    if v != getattr(t, att):
                        values = False
                        if att == "trs":
                            order = False
                elif v != "%s: n/a" % att:
                    unknown = False
        ev.update(order_ok=order, keys_ok=keys, values_ok=values, unknown_ok=unknown)
    except Exception as e:  # noqa
        ev["exc"] = type(e).__name__
        ev["exc_msg"] = str(e)[:200]
    return {"events": [ev]}


# ---------------------------------------------------------------------------
# C06: tract parsing is compositional

_LOTNUM = re.compile(r"L(\d+)$")


def _c06_obs(text, suppress, table, seq=False, cfgx=None):
    import pytrs
    if cfgx:
        # the same depth settings for the whole and for every part
        t = pytrs.Tract(text, parse_qq=True, config=",".join(x for x in ("suppress_lot_divs" if suppress else None, cfgx) if x))
    elif seq == "bulk":
        # the same final settings through the bulk entry point: the tract is configured with the opposite value, the
        # keyword of TractList.parse_tracts() (an explicit True / False) takes priority
        t = pytrs.Tract(text, config="suppress_lot_divs.%s" % (not suppress))
        pytrs.TractList([t]).parse_tracts(suppress_lot_divs=suppress)
    elif seq == "plss_steps":
        # the tract of a description that was configured in two steps before it was parsed: the division setting at
        # creation, 'parse_qq' assigned afterwards (an assignment changes what it names and leaves the rest)
        d = pytrs.PLSSDesc("T154N-R97W Sec 14: " + text, config="suppress_lot_divs.%s" % bool(suppress), wait_to_parse=True)
        d.config = "parse_qq"
        d.parse()
        if len(d.tracts) == 1 and d.tracts[0].desc.strip() == text.strip():
            t = d.tracts[0]
        else:                           # (the text did not survive as one block: observe the tract alone)
            t = pytrs.Tract(text, parse_qq=True, config="suppress_lot_divs" if suppress else None)
    elif seq == "thrice":
        # two committed parses under other settings (lot divisions the other way round, quarters only - settings under
        # which other things repeat), then the settings are put right and the observed parse is the third
        t = pytrs.Tract(text, parse_qq=True, config="suppress_lot_divs.%s,qq_depth.1" % (not suppress))
        t.parse()
        t.qq_depth = None
        t.suppress_lot_divs = suppress
        t.parse()
    elif seq:
        # the same final settings reached through a history: committed parse under the opposite setting, an
        # uncommitted parse under other settings, then the committed parse that is observed
        t = pytrs.Tract(text, parse_qq=True, config="suppress_lot_divs.%s" % (not suppress))
        t.parse(commit=False, suppress_lot_divs=suppress, clean_qq=True, qq_depth=1)
        t.parse(suppress_lot_divs=suppress)
    else:
        t = pytrs.Tract(text, parse_qq=True, config="suppress_lot_divs" if suppress else None)
    lots = list(t.lots)
    return {"lots": [_intern(table, "lot:" + x) for x in lots], "qqs": [_intern(table, "qq:" + x) for x in t.qqs],
            "lots_qqs": [_intern(table, ("lot:" if x in lots else "qq:") + x) for x in t.lots_qqs],
            "ilots": list(t.ilots),
            "lotnums": [int(_LOTNUM.search(x).group(1)) if _LOTNUM.search(x) else -1 for x in lots],
            "dup_lot": any(isinstance(f, str) and f.startswith("dup_lot<") for f in t.w_flags),
            "dup_qq": any(isinstance(f, str) and f.startswith("dup_qq<") for f in t.w_flags),
            "raw_lots": lots, "raw_qqs": list(t.qqs), "acres": dict(t.lot_acres)}


def c06(case):
    a = case["args"]
    table = {}
    try:
        whole = _c06_obs(a["text"], a["suppress"], table, seq=a.get("seq"), cfgx=a.get("cfgx"))
        parts = []
        for el in a["elements"]:
            p = _c06_obs(el["text"], a["suppress"], table, cfgx=a.get("cfgx"))
            div_ok = True
            if el["kind"] == "DIV":
                pre = el["div_prefix"]
                if a["suppress"]:
                    div_ok = all(re.fullmatch(r"L\d+", x) for x in p["raw_lots"]) and len(p["raw_lots"]) == el["nlots"]
                else:
                    div_ok = all(x.startswith(pre + " of L") for x in p["raw_lots"]) and len(p["raw_lots"]) == el["nlots"]
            part = {"lots": p["lots"], "qqs": p["qqs"], "div_ok": div_ok, "raw": (p["raw_lots"], p["raw_qqs"])}
            if el.get("want_lots") is not None:
                # the lots an element yields on its own, as written: the numbers of the group in order, each carrying
                # the division aliquot unless divisions are suppressed (the harness rendered the numbers, it knows them)
                pre = (el["div_prefix"] + " of ") if el["kind"] == "DIV" and not a["suppress"] else ""
                part["lots_ok"] = p["raw_lots"] == ["%sL%d" % (pre, n) for n in el["want_lots"]] and not p["raw_qqs"]
            if el["kind"] in ("ALQ", "ALL"):
                part["lots_ok"] = not p["raw_lots"]
                part["pieces"] = [(tokenize_piece(q) if isinstance(q, str) else None) or ["?" + str(q)[:20]] for q in p["raw_qqs"]]
            parts.append(part)
        acres_ok = True
        for lot, ac in a["acres"].items():
            if whole["acres"].get(lot) != ac:
                acres_ok = False
        return {"exc": "none", "whole": {k: v for k, v in whole.items() if not k.startswith("raw") and k != "acres"},
                "parts": parts, "acres_ok": acres_ok,
                "raw": {"lots": whole["raw_lots"], "qqs": whole["raw_qqs"], "acres": whole["acres"]}}
    except Exception as e:  # noqa
        return _exc(e)


# ---------------------------------------------------------------------------
# C07: aliquot spellings

_PP_TOK = re.compile(r"([NSEW]½|(?:NE|NW|SE|SW)¼)")
C07_CONFIGS = [None, "qq_depth_min.1", "qq_depth.3", "break_halves,qq_depth_min.1,qq_depth_max.3", "suppress_lot_divs"]


def _c07_res(text, clean, cfg):
    import pytrs
    parts = [x for x in (cfg, "clean_qq" if clean else None) if x]
    t = pytrs.Tract(text, parse_qq=True, config=",".join(parts) or None)
    return t, (tuple(t.lots), tuple(t.qqs), tuple(t.aliquots_whole))


def c07(case):
    a = case["args"]
    text, canon, clean = a["text"], a["canon"], a["clean"]
    try:
        same = fixed = True
        pp = None
        for cfg in C07_CONFIGS:
            t, r = _c07_res(text, clean, cfg)
            tc, rc = _c07_res(canon, clean, cfg)
            if pp is None:
                pp = t.pp_desc
            if a["all_recognised"] and (r != rc or t.pp_desc != tc.pp_desc):
                same = False
            t2, r2 = _c07_res(t.pp_desc, clean, cfg)
            if t2.pp_desc != t.pp_desc or r2 != r:
                fixed = False
            if t.preprocess() != t.pp_desc:
                fixed = False
        # the explicit keyword of Tract.preprocess() decides, whatever the tract's own setting is
        import pytrs
        for own in (None, "clean_qq"):
            for kw in (True, False):
                want = pytrs.Tract(text, config="clean_qq" if kw else None).pp_desc
                tk = pytrs.Tract(text, config=own)
                if tk.preprocess(clean_qq=kw) != want or tk.preprocess(clean_qq=kw, commit=True) != want or tk.pp_desc != want:
                    same = False if a["all_recognised"] else same
                    fixed = False
        # a tract parsed under the other clean_qq setting, re-configured (through its .config or through its container's
        # config_tracts), then re-parsed by the container's parse_tracts() without arguments: the setting now in force
        want_t, want_r = _c07_res(text, clean, None)
        for how in ("config", "config_tracts", "attribute"):
            tk = pytrs.Tract(text, parse_qq=True, config=None if clean else "clean_qq")
            lst = pytrs.TractList([tk])
            new_cfg = "clean_qq" if clean else "clean_qq.False"
            if how == "config":
                tk.config = new_cfg
            elif how == "config_tracts":
                lst.config_tracts(new_cfg)
            else:
                tk.clean_qq = bool(clean)
            lst.parse_tracts()
            if (tuple(tk.lots), tuple(tk.qqs), tuple(tk.aliquots_whole)) != want_r or tk.pp_desc != want_t.pp_desc:
                fixed = False
                same = False if a["all_recognised"] else same
        # the same spelling as the description block of a PLSSDesc: the tract it hands down reads it alike
        if a["all_recognised"]:
            cfgp = "parse_qq,clean_qq" if clean else "parse_qq"
            dp = pytrs.PLSSDesc("T154N-R97W Sec 14: " + text, config=cfgp)
            dq = pytrs.PLSSDesc("T154N-R97W Sec 14: " + canon, config=cfgp)
            if [(t_.pp_desc, tuple(t_.qqs), tuple(t_.lots)) for t_ in dp.tracts] != \
                    [(t_.pp_desc, tuple(t_.qqs), tuple(t_.lots)) for t_ in dq.tracts]:
                same = False
            # ... and as the division of a lot ('<chain> of Lot 1', '<chain> of Lots 2 - 3'): identical lots
            for tail in (" of Lot 1", " of Lots 2 - 3"):
                for cfg in (None, "suppress_lot_divs"):
                    _, ra = _c07_res(text + tail, clean, cfg)
                    _, rb = _c07_res(canon + tail, clean, cfg)
                    if ra != rb:
                        same = False
        toks, pos = [], 0
        for m in _PP_TOK.finditer(pp):
            if pp[pos:m.start()].strip():
                toks.append(["?", pp[pos:m.start()].strip()[:12]])
            g = m.group()
            toks.append([g[:-1], g[-1]])
            pos = m.end()
        if pp[pos:].strip():
            toks.append(["?", pp[pos:].strip()[:12]])
        # a bare quarter counts as recognised iff its symbol shows up in the normalised text
        # (the driver gives every component of such a chain its own direction)
        syms = {tk[0] for tk in toks if tk[0] != "?"}
        t0, _ = _c07_res(text, clean, None)
        bare = [(comp["class"] != "BAREQ") or (a["dirs"][i] in syms) for i, comp in enumerate(a["w"])]
        return {"exc": "none", "pp": toks, "same": same, "fixed": fixed, "bare": bare, "pp_text": pp,
                "qqs": list(t0.qqs)[:8]}
    except Exception as e:  # noqa
        return _exc(e)


# ---------------------------------------------------------------------------
# C08: Twp/Rge spellings and default directions

_TR_CANON = re.compile(r"T(\d{1,3})([NS])-R(\d{1,3})([EW])")
_TR_SHORT = re.compile(r"(\d{1,3})([ns])(\d{1,3})([ew])")


def _tr_tuple(m):
    return [int(m.group(1)), m.group(2).upper(), int(m.group(3)), m.group(4).upper()]


def c08(case):
    import pytrs
    from pytrs import MasterConfig
    a = case["args"]
    text, canon_text = a["text"], a["canon_text"]
    src, dns, dew = a["src"], a["dflt"]["ns"].lower(), a["dflt"]["ew"].lower()
    old = (MasterConfig.default_ns, MasterConfig.default_ew)
    try:
        cfg_parts = ["ocr_scrub"] if a["ocr"] else []
        kw, fkw = {}, {}
        cfg_form = a.get("cfg_form", "text")
        obj_settings = {"ocr_scrub": True} if a["ocr"] else {}
        for axis, val, key in (("ns", dns, "default_ns"), ("ew", dew, "default_ew")):
            if src[axis] == "config":
                obj_settings[key] = val
        # a Config object built from keywords / a dict: made first, before MasterConfig is touched - what it leaves
        # unspecified stays unspecified
        cobj = None
        if cfg_form == "kwargs":
            cobj = pytrs.Config.from_kwargs(**obj_settings)
        elif cfg_form == "dict":
            cobj = pytrs.Config.from_dict(dict(obj_settings))
        elif cfg_form == "parent" and not a["ocr"]:
            # the settings of another object taken over with Config.from_parent() (it carries the default directions,
            # parse_qq, clean_qq, suppress_lot_divs and the layout - not ocr_scrub)
            ptxt = ",".join(v for k_, v in obj_settings.items() if k_ in ("default_ns", "default_ew")) or None
            if a.get("parent_kind") == "tract":
                parent = pytrs.Tract("NE/4", config=ptxt)
            else:
                parent = pytrs.PLSSDesc("T1N-R1W Sec 1: NE/4", config=ptxt, wait_to_parse=True)
            cobj = pytrs.Config.from_parent(parent)
        for axis, val, mcattr, key in (("ns", dns, "default_ns", "default_ns"), ("ew", dew, "default_ew", "default_ew")):
            sx = src[axis]
            if sx == "config":
                cfg_parts.append(val)
                fkw[key] = val
            elif sx == "masterconfig":
                setattr(MasterConfig, mcattr, val)
            elif sx == "keyword":
                kw[key] = val
                fkw[key] = val
        cfg = cobj if cobj is not None else (",".join(cfg_parts) or None)
        if kw:
            d = pytrs.PLSSDesc(text, config=cfg, wait_to_parse=True)
            d.parse(**kw)
        else:
            d = pytrs.PLSSDesc(text, config=cfg)
        found = pytrs.find_twprge(text, preprocess=True, ocr_scrub=a["ocr"], **fkw)
        pp = [_tr_tuple(m) for m in _TR_CANON.finditer(d.pp_desc)]
        # every Twp/Rge of the preprocessed text is in the canonical spelling: none is left in another spelling
        leftovers = pytrs.find_twprge(_TR_CANON.sub(" ", d.pp_desc))
        fnd = []
        for f in found:
            m = _TR_CANON.fullmatch(f)
            fnd.append(_tr_tuple(m) if m else [0, "?", 0, "?"])
        tr_seq, last = [], None
        for t in d.tracts:
            m = _TR_SHORT.fullmatch(t.twprge)
            cur = _tr_tuple(m) if m else [0, "?", 0, "?"]
            if last is None or cur != last or t.orig_index in a["group_starts"]:
                tr_seq.append(cur)
            last = cur
        warned = []
        fixed = [f for f in d.w_flags if isinstance(f, str) and f.startswith("fixed_twprge<")]
        for w in a["want_short"]:
            warned.append(any(w in f for f in fixed) and all(any(w in f for f in t.w_flags if isinstance(f, str) and
                                                                 f.startswith("fixed_twprge<")) for t in d.tracts))
        dc = pytrs.PLSSDesc(canon_text)
        same = [(t.trs, t.desc) for t in d.tracts] == [(t.trs, t.desc) for t in dc.tracts]
        return {"exc": "none", "pp": pp, "found": fnd, "tracts": tr_seq, "canon_pp": not leftovers, "warned": warned,
                "same_tracts": same, "pp_text": d.pp_desc[:120], "w_flags": [str(f) for f in d.w_flags][:5]}
    except Exception as e:  # noqa
        return _exc(e)
    finally:
        MasterConfig.default_ns, MasterConfig.default_ew = old


# ---------------------------------------------------------------------------
# clean-up of the ends of a description block (CleanUp.tla)

CLEAN_WORD = "QXJVZK"
_CLEAN_TEXT = {"SP": " ", "NL": "\n", "W": CLEAN_WORD}


def clean_render(atoms, rng_case=0):
    out = []
    for i, a in enumerate(atoms):
        t = _CLEAN_TEXT.get(a, a)
        if a in ("the", "of", "in", "and", "all") and (i + rng_case) % 3 == 0:
            t = t.upper() if (i + rng_case) % 2 else t.capitalize()
        out.append(t)
    return "".join(out)


def clean_lex(text):
    out, i = [], 0
    low = text.lower()
    while i < len(text):
        if text.startswith(CLEAN_WORD, i):
            out.append("W")
            i += len(CLEAN_WORD)
            continue
        for w in ("the", "and", "all", "of", "in"):
            if low.startswith(w, i):
                out.append(w)
                i += len(w)
                break
        else:
            c = text[i]
            out.append("SP" if c == " " else "NL" if c == "\n" else c if c in ".,;:-" else "?")
            i += 1
    return out


def cleanup_block(case):
    import pytrs
    a = case["args"]
    try:
        d = pytrs.PLSSDesc("T154N-R97W Sec 14:" + a["text"])
        if len(d.tracts) != 1:
            return {"exc": "none", "obs": ["?"], "raw": [(t.trs, t.desc) for t in d.tracts][:3]}
        return {"exc": "none", "obs": clean_lex(d.tracts[0].desc), "raw": d.tracts[0].desc}
    except Exception as e:  # noqa
        return _exc(e)


# ---------------------------------------------------------------------------
# preprocessing of whole descriptions (Preprocess.tla)

_PP_PM = "of the 5th P.M."


def _pp_atom(k, t=0, ns="", r=0, ew="", tm="", x=""):
    return {"k": k, "t": t, "ns": ns, "r": r, "ew": ew, "tm": tm, "x": x}


def pp_lex(text, fills):
    """Read a preprocessed text back as the atoms of spec/Preprocess.tla (anything unexpected is one 'junk' atom)."""
    out, i, n = [], 0, len(text)
    by_fill = sorted(fills.items(), key=lambda kv: -len(kv[1]))
    while i < n:
        m = _TR_CANON.match(text, i)
        if m and not (m.end() < n and text[m.end()].isalnum()):
            t_, ns, r_, ew = _tr_tuple(m)
            out.append(_pp_atom("canon", t_, ns, r_, ew))
            i = m.end()
            continue
        hit = False
        for fid, ftxt in by_fill:
            if text.startswith(ftxt, i):
                out.append(_pp_atom("fill", int(fid)))
                i += len(ftxt)
                hit = True
                break
        if hit:
            continue
        if text.startswith(_PP_PM, i):
            out.append(_pp_atom("pm"))
            i += len(_PP_PM)
        elif text[i] == " ":
            out.append(_pp_atom("sp"))
            i += 1
        elif text[i] == "\n":
            out.append(_pp_atom("nl"))
            i += 1
        elif text[i] in ".:,;-":
            out.append(_pp_atom("p", x=text[i]))
            i += 1
        else:
            if not out or out[-1]["k"] != "junk":
                out.append(_pp_atom("junk"))
            i += 1
    return out


def c08_doc(case):
    import pytrs
    a = case["args"]
    text, dns, dew = a["text"], a["dflt"]["ns"].lower(), a["dflt"]["ew"].lower()
    try:
        d = pytrs.PLSSDesc(text, config="%s,%s" % (dns, dew))
        pp = d.pp_desc
        found = pytrs.find_twprge(text, preprocess=True, default_ns=dns, default_ew=dew)
        fnd = []
        for f in found:
            m = _TR_CANON.fullmatch(f)
            fnd.append(_tr_tuple(m) if m else [0, "?", 0, "?"])
        leftovers = pytrs.find_twprge(_TR_CANON.sub(" ", pp))
        trs = []
        for t in d.tracts:
            m = _TR_SHORT.fullmatch(t.twprge)
            trs.append(_tr_tuple(m) if m else [0, "?", 0, "?"])
        again = pytrs.PLSSDesc(pp, config="%s,%s" % (dns, dew)).pp_desc == pp
        out = {"exc": "none", "obs": pp_lex(pp, a["fills"]), "found": fnd, "tracts": trs, "leftover": bool(leftovers),
               "again": again, "pp_text": pp[:300]}
        if a.get("written_out") is not None:
            # "... giving the same tracts as if it had been written out"
            w = pytrs.PLSSDesc(a["written_out"], config="%s,%s" % (dns, dew))
            got, want = [(t.trs, t.desc) for t in d.tracts], [(t.trs, t.desc) for t in w.tracts]
            out["as_written_out"] = got == want
            if got != want:
                out["written_out_diff"] = {"text": got[:4], "written_out": want[:4]}
        return out
    except Exception as e:  # noqa
        return _exc(e)


# ---------------------------------------------------------------------------
# conformance with the marker-walk model (PlssWalk.tla)

def plss_walk(case):
    from . import render as R
    a = case["args"]
    try:
        d = plss_make(a)
    except Exception as e:  # noqa
        return {"exc": type(e).__name__, "lay": "?", "tracts": [], "unused": [], "eflags": [], "wflags": []}
    tr_by_short = {R.tr_short(v): v for v in (1, 2, 3, 4)}
    num2tok = {int(k): v for k, v in a["num2tok"].items()}
    marks = a.get("markers") or []
    tracts = []
    for t in d.tracts:
        sec = num2tok.get(int(t.sec), -1) if isinstance(t.sec, str) and t.sec.isdigit() else -1
        tracts.append({"tr": tr_by_short.get(t.twprge, -1), "sec": sec,
                       # (in the order in which they stand in the description - the walk model predicts the order too)
                       "marks": sorted([m for m in marks if R.marker(m) in (t.desc or "")],
                                       key=lambda m: (t.desc or "").find(R.marker(m)))})
    unused, kinds = [], []
    for f in d.e_flags:
        if not isinstance(f, str):
            kinds.append("?")
        elif f.startswith("unused_desc<"):
            kinds.append("unused_desc")
            unused.append([m for m in marks if R.marker(m) in f])
        elif f.startswith("twprge_error<"):
            kinds.append("twprge_error_item")
        elif f.startswith("sec_error<"):
            kinds.append("sec_error_item")
        elif f.startswith("unused_twprge<"):
            kinds.append("unused_twprge")
        elif f.startswith("unused_sec<"):
            kinds.append("unused_sec")
        else:
            kinds.append(f)
    # warning flags by kind; sec_within<trs> once per section token (a list of sections is one rebuilt component)
    wkinds, sw_tokens = [], set()
    for f in d.w_flags:
        if not isinstance(f, str):
            wkinds.append("?")
        elif f.startswith("sec_within<"):
            trs = f[len("sec_within<"):-1]
            for t, proj in zip(d.tracts, tracts):
                if t.trs == trs:
                    sw_tokens.add((proj["tr"], proj["sec"]))
        else:
            wkinds.append(f.split("<", 1)[0])
    wkinds += ["sec_within"] * len(sw_tokens)
    return {"exc": "none", "lay": d.current_layout, "tracts": tracts, "unused": unused, "eflags": kinds, "wflags": wkinds,
            "raw": [(t.trs, (t.desc or "")[:50]) for t in d.tracts][:8], "raw_e": [str(f)[:50] for f in d.e_flags][:8],
            "raw_w": [str(f)[:50] for f in d.w_flags][:8]}
