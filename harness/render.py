"""Rendering of abstract tokens into concrete text (the trusted tables of
DESIGN.md Appendix A).  Every choice is drawn from the rng handed in."""

# --- Twp/Rge ---------------------------------------------------------------
TR_VALUES = {          # abstract id -> (twp, ns, rge, ew)
    1: (154, "N", 97, "W"),
    2: (155, "N", 98, "W"),
    3: (7, "S", 12, "E"),
    4: (23, "N", 101, "W"),
    5: (54, "N", 97, "W"),     # its bare spelling '54N-97W' is part of the spelling of value 1
    6: (8, "N", 9, "E"),       # one-digit numbers, north-east
    7: (30, "S", 5, "W"),      # south-west
    8: (101, "S", 100, "E"),   # three-digit numbers
    9: (0, "N", 5, "W"),       # township 0
    10: (12, "S", 0, "E"),     # range 0
    11: (12, "N", 203, "W"),   # a three-digit number that does not begin with 1 (drawn by C01 only, not in TR_POOL)
}
TR_POOL = [1, 2, 3, 4, 6, 7, 8, 9, 10]
NS_WORD = {"N": ["N", "North", "N."], "S": ["S", "South", "S."]}
EW_WORD = {"E": ["E", "East", "E."], "W": ["W", "West", "W."]}
TR_TEMPLATES = [
    "T{t}{NS}-R{r}{EW}",
    "T{t}{NS}-R{r}{EW}",
    "T{t}{NS} R{r}{EW}",
    "Township {t} {NSw}, Range {r} {EWw}",
    "Township {t}{NS}, Range {r}{EW}",
    "Twp. {t} {NS}, Rge. {r} {EW}",
    "T. {t} {NS}., R. {r} {EW}.",
    "{t}{NS}-{r}{EW}",
    "t{t}{ns}-r{r}{ew}",
]


def tr_canon(v):
    t, ns, r, ew = TR_VALUES[v]
    return "T%d%s-R%d%s" % (t, ns, r, ew)


def tr_short(v):
    t, ns, r, ew = TR_VALUES[v]
    return "%d%s%d%s" % (t, ns.lower(), r, ew.lower())


# the spellings whose matched text can begin, or be part of, another occurrence's matched text
TR_TEMPLATES_OVERLAP = ["T{t}{NS}-R{r}{EW}", "T. {t} {NS}., R. {r} {EW}.", "{t}{NS}-{r}{EW}", "T{t}{NS} R{r}{EW}"]


def render_tr(v, rng, plain=False, templates=None):
    t, ns, r, ew = TR_VALUES[v]
    tpl = TR_TEMPLATES[0] if plain else rng.choice(templates or TR_TEMPLATES)
    return tpl.format(t=t, r=r, NS=ns, EW=ew, ns=ns.lower(), ew=ew.lower(),
                      NSw={"N": "North", "S": "South"}[ns], EWw={"E": "East", "W": "West"}[ew])


# --- sections ---------------------------------------------------------------
THRU = [" - ", "-", " – ", " — ", " through ", " thru ", " to ", " Through ", " THRU ", " To "]
AND = [", ", " and ", " & ", ", and ", " And ", " AND "]
SEC_WORDS = [("Sec", "Secs"), ("Sec.", "Secs."), ("Section", "Sections"), ("Sect.", "Sects."), ("Sect", "Sects"), ("§", "§")]


def render_sec(nums, conns, colon, rng, plain=False):
    sing, plur = SEC_WORDS[0] if plain else rng.choice(SEC_WORDS)
    word = plur if len(nums) > 1 and rng.random() < 0.7 else sing
    if word == "§" and len(nums) == 1 and nums[0] < 10:
        word = "Sec"          # a section reference is always at least 4 characters long (reporting threshold)
    # (the symbol and the abbreviations with a period are also written tight against the number: '§14', 'Sec.14')
    gap = "" if (not plain and word[-1] in "§." and rng.random() < 0.25 and not (word == "§" and len(nums) == 1)) else " "
    out = "%s%s%d" % (word, gap, nums[0])
    for j in range(1, len(nums)):
        c = (THRU if conns[j - 1] == "THRU" else AND)[0] if plain else rng.choice(THRU if conns[j - 1] == "THRU" else AND)
        out += c + str(nums[j])
    if colon:
        out += ":" if plain else rng.choice([":", ":", ":", " :"])      # (the pattern allows blanks before the colon)
    return out


# --- description blocks (no Twp/Rge or section wording inside) --------------
BLOCKS = [
    "NE/4", "W/2", "S/2N/2", "N½SW¼", "Lots 1 - 3, S/2NE/4", "Lot 4 (38.12), SE/4NW/4", "Lots 1, 2, E/2NW/4",
    "North Half", "Northeast Quarter of the Southwest Quarter", "ALL",
    "That part lying north of the river", "Beginning at a point 200 feet west; thence north 40 rods",
    "SE/4SE/4, less and except the wellbore of the Smith #1", "E/2, limited to depths above 9,000 feet",
    "A tract of land described by metes and bounds, returning to the point of beginning.",
    "Lot 2, Block 7, Smith Add.", "N/2NW/4 (80.00 acres)", "W/2 E/2",
    "All that part lying within the Williston Basin", "The lands conveyed by the deed aforesaid",
    "NE/4, and the mineral rights therein", "S/2 and all appurtenances thereof",
]

# --- foreign marker words (match none of the library's patterns) ------------
MARK_ALPHA = "QXJVZK"


def marker(i, rng=None):
    """A unique upper-case word over {Q,X,J,V,Z,K}, length 6, for id i (base-6 digits)."""
    if i >= 500:
        # a second family of foreign words, with the letters 'PM' inside (as in 'development', 'equipment': known
        # finding F16 - the principal-meridian pattern must not read them)
        n = i - 500
        return "Q" + MARK_ALPHA[(n // 6) % 6] + "PM" + MARK_ALPHA[n % 6] + MARK_ALPHA[(n // 36) % 6]
    s = ""
    n = i
    for _ in range(5):
        s = MARK_ALPHA[n % 6] + s
        n //= 6
    return "Q" + s


def markers_in(text, ids):
    return [i for i in ids if marker(i) in text]


# --- trigger wording (C10) ---------------------------------------------------
TRIGGERS = {
    "less_except": ["less and except", "except", "limited to"],
    "insofar": ["insofar as", "only insofar as", "in so far as"],
    "including": ["including"],
    "depth": ["from the surface to the base of", "depths"],
    "well": ["wellbore", "well"],
}
