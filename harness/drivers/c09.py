"""C09  Every tract is well-formed and traceable to its source.

spec/TrsForm.tla        the standard form (shared with C12)
spec/ObsInvariants.tla  ClauseC09: standard-or-error TRS without 'undefined', attributes = decomposition,
                        orig_desc / source / orig_index
spec/PlssDesc.tla       token-level input space
"""
from .. import core, plsssoup, soup

PROP = "C09"


def soup_cases(ctx, n):
    cases = []
    for i in range(n):
        args = {"text": soup.rand_text(ctx.rng), "config": soup.rand_config(ctx.rng), # (the source tag is "any value of any type": a document id, a row number - also 0 -, an empty string)
                "source": [("SRC-%d" % (i % 5)), i % 7, 0, "", "doc 12, row 3"][i % 5]}
        if ctx.rng.random() < 0.3:
            args["kw"] = {"parse_qq": True}
        cases.append({"id": "s%d" % i, "kind": "plss", "origin": "soup", "abs": {}, "args": args})
    # section lists with repeated numbers, large numbers, many sections
    for i, t in enumerate(["T154N-R97W Sections 14, 15 and 14: NE/4", "T154N-R97W Secs 1 - 3 and 3 - 5: W/2",
                           "T154N-R97W Sec 100: NE/4", "T154N-R97W Sec 0: NE/4", "T154N-R97W Sec 36 - 34: NE/4",
                           "NE/4 of Sec 7 and 7, T1N-R1E", "T999N-R999W Sec 99: ALL", "T1000N-R97W Sec 1: ALL",
                           "Sec 5: N/2, Sec 5: S/2, T154N-R97W", "T154N-R97W Sec 14: NE/4, T155N-R97W Sec 14: NE/4"]):
        for cfg in (None, "segment", "sec_within", "copy_all", "TR_desc_S"):
            cases.append({"id": "f%d%s" % (i, cfg or "d"), "kind": "plss", "origin": "fixed", "abs": {},
                          "args": {"text": t, "config": cfg, "source": "SRC-9"}})
    return cases


def run(ctx):
    thorough = ctx.tier == "thorough"
    cases = plsssoup.model_cases(ctx, 4 if thorough else 3, plsssoup.ALL_CONFIGS, keep=0.5 if thorough else 1.0)
    ctx.exhaustive = not thorough
    plsssoup.judge(ctx, PROP, cases)
    plsssoup.judge(ctx, PROP, soup_cases(ctx, 40000 if thorough else 5000))
    ctx.rule = ("every tract of (a) every admissible token sequence of spec/PlssDesc.tla up to %d tokens x 15 configurations, "
                "(b) seeded soup / truncated / shuffled texts x random configurations, (c) fixed texts with repeated, "
                "descending and out-of-range section numbers x 5 configurations; non-trivial = distinct (text, configuration)"
                % (4 if thorough else 3))
    ctx.assumptions += ["tract attributes are read through the public properties (twp, twp_num, ...)"]


def replay(ctx, payload):
    return plsssoup.generic_replay(ctx, PROP, payload)
