"""C05  Elided lists of sections and lots expand to exactly the numbers they denote.

spec/ElidedList.tla       denotation Expand + PlusCal transcription of the right-to-left scan
spec/ElidedListTrace.tla  evaluates C05 on every observation
"""
from .. import core

THRU = [" - ", "-", " – ", " — ", " through ", " thru ", " thru. ", " to ", " Through ", " THROUGH ", " Thru ", " THRU ", " To ", " TO ",
        "-\n", " -\n", " through\n", "\nthru "]        # (a list wrapped over two lines)
AND = [", ", " and ", " & ", ", and ", ",", " And ", " AND "]
SEC_WORDS = [("Sec", "Secs"), ("Sec.", "Secs."), ("Section", "Sections"), ("Sect.", "Sects."), ("§", "§§")]
SEC_REPEAT = ["Sec", "Sec.", "Section", "Sect.", "§"]
LOT_WORDS = [("Lot", "Lots"), ("L", "L"), ("Lt", "Lts"), ("Lt.", "Lts"), ("L.", "L.")]
LOT_REPEAT = ["Lot", "Lots", "L", "Lt", "Lt."]
BLOCKS = ["NE/4", "W/2", "Lots 1 - 3, S/2NE/4", "That part lying north of the river", "N½SW¼"]


def render_list(nums, conns, kw, words, repeat, rng, sep_after_word=" "):
    sing, plur = rng.choice(words)
    word = plur if len(nums) > 1 and rng.random() < 0.8 else sing
    if word == "§§":
        word = "§"
    if sep_after_word == " " and word[-1] in ".§L" and rng.random() < 0.2:
        sep_after_word = ""            # 'Sec.14', '§14', 'L1': written tight against the number
    out = word + sep_after_word + str(nums[0])
    for j in range(1, len(nums)):
        c = rng.choice(THRU if conns[j - 1] == "THRU" else AND)
        if kw[j]:
            w = rng.choice(repeat)
            if c[-1] != " ":
                c = c + " "
            out += c + w + " " + str(nums[j])
        else:
            out += c + str(nums[j])
    return out


def mk_cases(cid, nums, conns, kw, rng, origin, lo_shift=True):
    """One abstract list -> three concrete cases (find_sec, PLSSDesc, Tract lots)."""
    k = len(nums)
    cases = []
    for flavour in ("find_sec", "plss", "lots", "ctx_lots", "div_lots"):
        top = 99 if flavour not in ("lots", "ctx_lots", "div_lots") else 999
        d = rng.randint(0, top - max(nums)) if lo_shift else 0
        ns = [n + d for n in nums]
        if flavour == "lots":
            text = render_list(ns, conns, kw, LOT_WORDS, LOT_REPEAT, rng)
            args = {"text": text, "flavour": flavour}
        elif flavour == "div_lots":
            # the list as the lots of a division ('N/2 of Lots 1 - 3'): the lot names carry the division, the integer
            # lot numbers do not
            text = render_list(ns, conns, kw, LOT_WORDS, LOT_REPEAT, rng)
            args = {"text": rng.choice(["N/2 of ", "S½ of ", "E/2 ", "W/2NW/4 of ", "North Half of "]) + text, "flavour": flavour}
        elif flavour == "ctx_lots":
            # the list after an earlier lot and an aliquot; the earlier lot is written like the beginning of the list
            # ('Lots 1, SE/4NE/4, Lots 10 - 12'), so that a parser working on the text of a match, not its position, trips
            text = render_list(ns, conns, kw, LOT_WORDS, LOT_REPEAT, rng)
            import re as _re
            m = _re.match(r"(\D*)(\d+)", text)
            first = m.group(2)
            lead = int(first[:rng.randint(1, len(first))])
            args = {"text": "%s%d, %s, %s" % (m.group(1), lead, rng.choice(["SE/4NE/4", "N/2SW/4", "NW/4"]), text),
                    "flavour": flavour, "lead": lead}
        else:
            text = render_list(ns, conns, kw, SEC_WORDS, SEC_REPEAT, rng)
            args = {"text": text, "flavour": flavour}
            if flavour == "plss":
                block = rng.choice(BLOCKS)
                # (the caller keeps one Config object for all its descriptions)
                args["shared_cfg"] = True
                if rng.random() < 0.3:
                    # the other order of a description: block, sections, Twp/Rge
                    args.update(prefix=block + " of ", suffix=", T154N-R97W", block=block)
                    if rng.random() < 0.3:
                        args["layout_kw"] = "desc_STR"
                elif rng.random() < 0.12:
                    # nothing is described: the list ends the text (every section still gets its tract, with an empty block)
                    args.update(prefix="T154N-R97W ", suffix=rng.choice(["", ":", "\n"]), block="")
                else:
                    args.update(prefix="T154N-R97W " if rng.random() < 0.7 else "Township 154 North, Range 97 West, ",
                                suffix=": " + block, block=block)
                    if rng.random() < 0.3:
                        args["layout_kw"] = "TRS_desc"
        cases.append({"id": "%s%s" % (cid, flavour[0] if flavour != "div_lots" else "d"), "kind": "c05", "origin": origin,
                      "abs": {"nums": ns, "conns": list(conns), "kw": [bool(x) for x in kw]},
                      "args": args})
    return cases


def check(ctx, cases):
    obs = ctx.impl_map("c05", cases)
    recs, by_id = [], {}
    for c in cases:
        o = obs.get(c["id"])
        if o is None:
            continue
        by_id[c["id"]] = c
        a = c["abs"]
        nonseq = o.get("nonseq")
        if nonseq is None:      # find_sec has no warning channel: neutral value
            import_desc = any(a["conns"][j] == "THRU" and a["nums"][j] >= a["nums"][j + 1]
                              for j in range(len(a["conns"])))
            nonseq = import_desc
        recs.append({"id": c["id"], "nums": a["nums"], "conns": a["conns"], "kw": a["kw"],
                     "obs": o.get("obs") or [], "nonseq": bool(nonseq), "shared": bool(o.get("shared", True)),
                     "exc": o.get("exc", "none")})
        if len(a["nums"]) >= 2:
            ctx.nontrivial.add((c["args"]["flavour"], tuple(a["nums"]), tuple(a["conns"]), tuple(a["kw"])))
    consts = {"MaxK": 1, "Nums": {1}, "Fault": "none", "EmitCases": False}
    fails, drifts = ctx.validate("ElidedListTrace", recs, consts)
    for cid, clause, *_ in fails:
        ctx.violation(by_id[cid], clause, {"observed": obs[cid]})
    failed = {f[0] for f in fails}
    for cid in drifts:
        if cid not in failed:
            ctx.add_drift(1, {"case": by_id[cid]["args"], "observed": obs[cid].get("raw")})
    for c in cases[:4]:
        ctx.sample({"input": c["args"], "observed": obs.get(c["id"], {}).get("raw")})
    return fails


def run(ctx):
    thorough = ctx.tier == "thorough"
    maxk = 4
    nums = set(range(1, 6 if thorough else 5))
    base = {"MaxK": maxk, "Nums": nums}
    invs = ["ScanEqualsDenotation", "FlagIffNonAscending", "DescendingFlagged", "ShiftInvariant",
            "AliquotsThroughOK"]
    ctx.tlc("ElidedList", dict(base, Fault="none", EmitCases=False), invariants=invs, coverage=True)
    ctx.require_actions(["scan", "fin"])
    for fault in ("descending_off_by_one", "forget_through"):
        ctx.tlc("ElidedList", dict(base, MaxK=3, Fault=fault, EmitCases=False), invariants=invs,
                expect_violation=fault, count=False)
    # spec -> code: every list of the (smaller) emission bound, rendered three ways
    emit_k = 4 if thorough else 3
    res = ctx.tlc("ElidedList", {"MaxK": emit_k, "Nums": set(range(1, 5)), "Fault": "none", "EmitCases": True},
                  invariants=["EmitCase"], workers=1, count=False)
    cases = []
    seen = set()
    for c in res.cases:
        key = (tuple(c["nums"]), tuple(c["conns"]), tuple(c["kw"]))
        if key in seen:
            continue
        seen.add(key)
        # kw[1] is meaningless (the list always starts with its keyword)
        if c["kw"][0]:
            continue
        cases += mk_cases("e%d" % len(seen), c["nums"], c["conns"], c["kw"], ctx.rng, "tlc")
    if not cases:
        raise core.MachineryFailure("ElidedList emitted no cases")
    ctx.exhaustive = True
    check(ctx, cases)
    # code -> spec beyond the bound: longer lists, full number range
    rnd = []
    for n in range(8000 if thorough else 1200):
        k = ctx.rng.randint(2, 8)
        nums_ = [ctx.rng.randint(1, 60) for _ in range(k)]
        conns = []
        for j in range(k - 1):
            c = ctx.rng.choice(["AND", "AND", "THRU"])
            if c == "THRU" and abs(nums_[j] - nums_[j + 1]) > 12:   # keep expansions short
                nums_[j + 1] = max(1, min(60, nums_[j] + ctx.rng.randint(-6, 8)))
            conns.append(c)
        kw = [False] + [ctx.rng.random() < 0.25 for _ in range(k - 1)]
        rnd += mk_cases("r%d" % n, nums_, conns, kw, ctx.rng, "random")
    # long lists: 9..18 written numbers, mostly after one keyword only (nothing in the statement caps the length)
    for n in range(1500 if thorough else 250):
        k = ctx.rng.randint(9, 18)
        nums_ = [ctx.rng.randint(1, 60) for _ in range(k)]
        conns = []
        for j in range(k - 1):
            c = ctx.rng.choice(["AND", "AND", "AND", "THRU"])
            if c == "THRU" and abs(nums_[j] - nums_[j + 1]) > 6:
                nums_[j + 1] = max(1, min(60, nums_[j] + ctx.rng.randint(-3, 4)))
            conns.append(c)
        kw = [False] + [ctx.rng.random() < 0.05 for _ in range(k - 1)]
        rnd += mk_cases("w%d" % n, nums_, conns, kw, ctx.rng, "long list")
    # long ranges (a township has 36 sections, but nothing in the statement caps a list)
    for n in range(300 if thorough else 60):
        a = ctx.rng.randint(1, 50)
        b = ctx.rng.randint(a + 30, 99)
        nums_, conns = [a, b], ["THRU"]
        if ctx.rng.random() < 0.3:
            nums_, conns = [b, a], ["THRU"]
        if ctx.rng.random() < 0.4:
            nums_.append(ctx.rng.randint(1, 99))
            conns.append("AND")
        rnd2 = mk_cases("L%d" % n, nums_, conns, [False] * len(nums_), ctx.rng, "long range", lo_shift=False)
        for c in rnd2:
            if c["args"]["flavour"] == "plss" and c["args"].get("block") and ctx.rng.random() < 0.6:
                # also in the layouts whose documented rendering has no colon
                c["args"].update(prefix="", suffix=", T154N-R97W", block=c["args"]["block"])
                c["args"]["text"] = c["args"]["block"] + " of " + c["args"]["text"]
                if c["args"].get("layout_kw"):
                    c["args"]["layout_kw"] = "desc_STR"
        rnd += rnd2
    check(ctx, rnd)
    ctx.rule = ("abstract lists (numbers, AND/THRU connectives, repeated-keyword flags) = all terminal states of "
                "spec/ElidedList.tla up to %d numbers over 1..4 (exhaustive) + seeded random lists of 2..8 and of 9..18 numbers; "
                "each rendered (random connective/keyword spelling, random shift) for find_sec, PLSSDesc and Tract "
                "lots; non-trivial = distinct (channel, list) with >= 2 numbers" % emit_k)
    ctx.assumptions += ["spelling tables THRU/AND/SEC_WORDS/LOT_WORDS in harness/drivers/c05.py (DESIGN Appendix A)",
                        "chained ranges (a - b - c) are validated as drift only, not claimed (R3)"]


def replay(ctx, payload):
    case = payload["case"]
    fails = check(ctx, [case])
    if fails:
        print("VIOLATION property=C05 replay=(replayed) clause=%s" % fails[0][1])
        return 1
    print("replayed case passes on the current tree: %s" % case["args"])
    return 0
