"""C03  Parsing is total: any text, any valid configuration, never an exception.

spec/PlssDesc.tla       token-level input space (every token sequence x configuration)
spec/ObsInvariants.tla  ClauseC03 (Returned, AtLeastOneTract), ArgClause (documented rejections)
spec/PlssDescTrace.tla  verdicts
"""
from .. import core, plsssoup, soup

PROP = "C03"

# (kind, how the worker calls the library)   expected exception per kind: ObsInvariants!ExpectedExc
ARG_KINDS = ["text_int", "text_none", "text_bytes", "text_list", "config_int", "config_list", "config_unknown_name",
             "config_unknown_kv", "default_ns_bad", "default_ew_bad", "tract_config_int", "tract_config_unknown",
             "tract_trs_int", "parse_default_ns_bad", "config_object_ok", "config_none_ok"]


def soup_cases(ctx, n, prefix="s"):
    cases = []
    for i in range(n):
        text = soup.rand_text(ctx.rng)
        r = ctx.rng.random()
        if r < 0.6:
            args = {"text": text, "config": soup.rand_config(ctx.rng), "source": "SRC-1"}
            if ctx.rng.random() < 0.3:
                args["kw"] = {"parse_qq": True}
            cases.append({"id": "%s%d" % (prefix, i), "kind": "plss", "origin": "soup", "abs": {}, "args": args})
        elif r < 0.8:
            cases.append({"id": "%s%d" % (prefix, i), "kind": "plss_entry", "origin": "soup", "abs": {},
                          "args": {"text": text, "config": soup.rand_config(ctx.rng), "entry": "plss_parse",
                                   "parse_kw": ctx.rng.choice([{}, {"segment": True}, {"sec_within": True},
                                                               {"sec_colon_required": True}, {"sec_colon_cautious": True},
                                                               {"layout": ctx.rng.choice(soup.LAYOUTS)},
                                                               {"parse_qq": True, "clean_qq": True, "qq_depth": 2},
                                                               {"parse_qq": True, "qq_depth": 0}, {"parse_qq": True, "qq_depth_max": 0},
                                                               {"ocr_scrub": True, "default_ns": "s", "default_ew": "e"}])}})
        elif r < 0.87:
            comp = lambda: ctx.rng.choice([154, 97, 14, 0, "154n", "97w", "14", "154", "", None, "XXXz", "___z", "l5S", "TI"])  # noqa
            cfg = soup.rand_config(ctx.rng, for_tract=True)
            extra = ctx.rng.choice([None, None, "ocr_scrub", "s,e", "ocr_scrub,s"])
            cases.append({"id": "%s%d" % (prefix, i), "kind": "plss_entry", "origin": "soup", "abs": {},
                          "args": {"text": text, "config": ",".join(x for x in (cfg, extra) if x) or None, "entry": "tract_build",
                                   "components": [comp() for _ in range(ctx.rng.randint(0, 3))],
                                   "components2": [comp(), comp(), comp()]}})
        else:
            cases.append({"id": "%s%d" % (prefix, i), "kind": "plss_entry", "origin": "soup", "abs": {},
                          "args": {"text": text, "config": soup.rand_config(ctx.rng, for_tract=True),
                                   "entry": ctx.rng.choice(["tract_init", "tract_parse"]),
                                   "parse_kw": ctx.rng.choice([{}, {"clean_qq": True}, {"qq_depth_min": 1, "qq_depth_max": 3},
                                                               {"qq_depth": 0}, {"qq_depth_min": 0, "qq_depth_max": 0}, {"qq_depth_max": 0},
                                                               {"break_halves": True, "suppress_lot_divs": True}])}})
    return cases


def judge_mixed(ctx, cases):
    """plss cases go through the full projection; plss_entry cases only report exc / tract count."""
    a = [c for c in cases if c["kind"] == "plss"]
    b = [c for c in cases if c["kind"] == "plss_entry"]
    if a:
        plsssoup.judge(ctx, PROP, a)
    if b:
        obs = ctx.impl_map("plss_entry", b)
        plsssoup.judge(ctx, PROP, b, obs=obs)


def run(ctx):
    thorough = ctx.tier == "thorough"
    cases = plsssoup.model_cases(ctx, 4 if thorough else 3, plsssoup.ALL_CONFIGS, keep=0.5 if thorough else 1.0)
    ctx.exhaustive = not thorough
    plsssoup.judge(ctx, PROP, cases)
    # longer sequences over the core alphabet under the modes that re-arrange text
    more = plsssoup.model_cases(ctx, 5, ["secwithin", "seg_within", "within_req", "f_S_desc_TR", "cautious"],
                                keep=1.0 if thorough else 0.25, check_model=False, prefix="k", alphabet="core", minlen=4)
    plsssoup.judge(ctx, PROP, more)
    judge_mixed(ctx, soup_cases(ctx, 60000 if thorough else 6000))
    # documented rejections of invalid arguments
    acases = [{"id": "a%d" % i, "kind": "argcheck", "abs": {"kind": k}, "args": {"kind": k}} for i, k in enumerate(ARG_KINDS)]
    obs = ctx.impl_map("argcheck", acases)
    recs = [{"id": c["id"], "kind": c["abs"]["kind"], "exc": obs[c["id"]]["exc"], "bases": obs[c["id"]].get("bases", [])}
            for c in acases]
    fails, _ = ctx.validate("ArgTrace", recs, {}, invariants=("Verdict",))
    for cid, clause, *_ in fails:
        c = next(x for x in acases if x["id"] == cid)
        ctx.violation(c, clause, {"observed": obs[cid]})
    ctx.rule = ("(a) every admissible token sequence of spec/PlssDesc.tla up to %d tokens x 15 configurations (forced layouts "
                "through keyword / config / parse argument), (b) core-alphabet sequences of 4..5 tokens under sec_within / "
                "segment / colon modes, (c) seeded soup of PLSS vocabulary, truncated and shuffled sample descriptions, "
                "unicode, empty text x random valid configurations x entry points PLSSDesc(), PLSSDesc.parse(), Tract(), "
                "Tract.parse(), Tract.from_twprgesec() / set_twprgesec() with components of every documented kind, (d) %d invalid-argument calls; non-trivial = distinct (text, configuration, entry point)"
                % (4 if thorough else 3, len(ARG_KINDS)))
    ctx.assumptions += ["inputs that trigger the unclaimed C16 (a Twp/Rge repeated > 3 times, runs of '. ') are not generated",
                        "ConfigError is accepted where TypeError is documented (it subclasses TypeError)"]


def replay(ctx, payload):
    case = payload["case"]
    if case["kind"] == "argcheck":
        obs = ctx.impl_map("argcheck", [case])
        recs = [{"id": case["id"], "kind": case["abs"]["kind"], "exc": obs[case["id"]]["exc"],
                 "bases": obs[case["id"]].get("bases", [])}]
        fails, _ = ctx.validate("ArgTrace", recs, {}, invariants=("Verdict",))
    elif case["kind"] == "plss_entry":
        obs = ctx.impl_map("plss_entry", [case])
        fails, _ = plsssoup.judge(ctx, PROP, [case], obs=obs)
    else:
        fails, _ = plsssoup.judge(ctx, PROP, [case])
    if fails:
        print("VIOLATION property=C03 replay=(replayed) clause=%s" % fails[0][1])
        return 1
    print("replayed case passes on the current tree: %r" % (case["args"],))
    return 0
