"""C13  Configuration round-trips through text and has a single precedence order.

spec/Config.tla       codec (Encode/Decode) + life-cycle of a setting through the channels (Create/Assign/Parse)
spec/ConfigTrace.tla  verdicts on observed round trips and scenario pairs
"""
from .. import core

CONSTS = {"Fault": "none", "EmitCases": False, "MaxSet": 1}
SETTINGS = ["default_ns", "default_ew", "layout", "wait_to_parse", "parse_qq", "clean_qq", "sec_colon_required",
            "sec_colon_cautious", "suppress_lot_divs", "ocr_scrub", "segment", "qq_depth", "qq_depth_min",
            "qq_depth_max", "break_halves", "sec_within"]
BOOLS = {"wait_to_parse", "parse_qq", "clean_qq", "sec_colon_required", "sec_colon_cautious", "suppress_lot_divs",
         "ocr_scrub", "segment", "break_halves", "sec_within"}
VALUES = {s: ["True", "False"] for s in BOOLS}
# (0 is a depth like any other for the text codec: 'qq_depth_min.0'; the scenarios of the specification use 1..3)
VALUES.update({"qq_depth": ["0", "1", "2", "3"], "qq_depth_min": ["0", "1", "2", "3"], "qq_depth_max": ["0", "1", "2", "3"],
               "default_ns": ["n", "s"], "default_ew": ["e", "w"],
               "layout": ["TRS_desc", "desc_STR", "S_desc_TR", "TR_desc_S", "copy_all"]})
UNKNOWN = ["no_such_setting", "clean_qq,bogus", "bogus.True", "qq_deep.2", "cleanqq", "sec_colon", "layout_x.copy_all",
           "default_nz.n", "segment;nonsense", "parse_qq, x_y"]


TRACT_LEVEL = {"clean_qq", "suppress_lot_divs", "qq_depth", "qq_depth_min", "qq_depth_max", "break_halves"}


def full(cfg):
    return {s: cfg.get(s, "unset") for s in SETTINGS}


def fresh_hashes(refs):
    """Each distinct reference scenario once in its own brand-new interpreter: {json key: hash of its result}."""
    import os
    import subprocess
    code = ("import sys, json; sys.dont_write_bytecode = True; sys.path.insert(0, %r); sys.path.insert(0, %r)\n"
            "from harness import impl\n"
            "print(impl.c13_ref_hash(json.loads(sys.argv[1])))\n") % (core.repo_root(), core.VERIF)
    keys = sorted(refs)
    out = {}
    env = dict(os.environ, PYTHONDONTWRITEBYTECODE="1", PYTHONHASHSEED="0", PYTRS_VERIF="1")
    for i in range(0, len(keys), 16):
        procs = [(k, subprocess.Popen(["/venv/bin/python", "-c", code, k], stdout=subprocess.PIPE, stderr=subprocess.PIPE,
                                      text=True, env=env)) for k in keys[i:i + 16]]
        for k, pr in procs:
            o, e = pr.communicate(timeout=300)
            if pr.returncode != 0:
                raise core.MachineryFailure("fresh interpreter failed: %s" % e[-400:])
            out[k] = int(o.strip().splitlines()[-1])
    return out


def check(ctx, cases):
    by_kind = {}
    for c in cases:
        by_kind.setdefault(c["kind"], []).append(c)
    obs = {}
    for kind, cs in by_kind.items():
        obs.update(ctx.impl_map(kind, cs))
    recs, by_id = [], {}
    nontriv_effect = 0
    refs = {core.json.dumps(c["args"]["ref"], sort_keys=True) for c in cases if c["abs"]["kind"] == "scenario"}
    fresh = fresh_hashes(refs) if refs else {}
    ctx.notes["fresh_interpreter_references"] = ctx.notes.get("fresh_interpreter_references", 0) + len(fresh)
    for c in cases:
        o = obs.get(c["id"])
        if o is None:
            continue
        by_id[c["id"]] = c
        k = c["abs"]["kind"]
        if k == "codec":
            recs.append({"id": c["id"], "kind": "codec", "cfg": full(c["abs"]["cfg"]), "via": c["args"]["via"],
                         "obs": full(o.get("obs") or {}), "exc": o.get("exc", "none")})
            ctx.nontrivial.add(("codec", c["args"]["via"], core.json.dumps(c["abs"]["cfg"], sort_keys=True)))
        elif k == "unknown":
            recs.append({"id": c["id"], "kind": "unknown", "exc": o.get("exc", "none")})
            ctx.nontrivial.add(("unknown", c["args"]["via"], c["args"]["text"]))
        else:
            recs.append({"id": c["id"], "kind": "scenario", "scn": c["abs"]["scn"], "used": c["abs"]["used"],
                         "fp_obs": o["fp_obs"], "fp_ref": o["fp_ref"], "exc_obs": o["exc_obs"], "exc_ref": o["exc_ref"],
                         # the reference itself must be what a fresh interpreter gives (a setting that sticks to the
                         # process makes scenario and reference wrong in the same way)
                         "ref_pure": o.get("h_ref") == fresh.get(core.json.dumps(c["args"]["ref"], sort_keys=True))})
            if o["fp_ref"] != o["fp_default"]:
                nontriv_effect += 1
                ctx.nontrivial.add(("scenario", core.json.dumps(c["abs"]["scn"], sort_keys=True)))
    fails, _ = ctx.validate("ConfigTrace", recs, CONSTS, invariants=("Verdict",))
    for cid, clause, *_ in fails:
        ctx.violation(by_id[cid], clause, {"observed": obs[cid]})
    for c in cases[:2] + [c for c in cases if c["abs"]["kind"] == "scenario"][:3]:
        ctx.sample({"case": c["abs"], "observed": {k: v for k, v in obs.get(c["id"], {}).items() if not k.startswith("raw")}})
    ctx.notes["scenarios_where_the_setting_changes_the_result"] = ctx.notes.get(
        "scenarios_where_the_setting_changes_the_result", 0) + nontriv_effect
    return fails


def run(ctx):
    thorough = ctx.tier == "thorough"
    invs = ["RoundTrip", "StrongestWins", "KeywordDoesNotStick", "KeywordSilencesRelated"]
    ctx.tlc("Config", {"Fault": "none", "EmitCases": False, "MaxSet": 2}, invariants=invs, coverage=True)
    ctx.require_actions(["ChooseCodec", "ChooseScenario", "Create", "Assign", "Parse", "ParseAgain"])
    for fault in ("kw_loses", "assign_ignored", "kw_sticks", "related_attr_wins"):
        ctx.tlc("Config", {"Fault": fault, "EmitCases": False, "MaxSet": 1}, invariants=invs,
                expect_violation=fault, count=False)
    res = ctx.tlc("Config", {"Fault": "none", "EmitCases": True, "MaxSet": 2}, invariants=["EmitCodec", "EmitScn"],
                  workers=1, count=False)
    cases = []
    n_codec = n_scn = 0
    for i, c in enumerate(res.cases):
        if c["kind"] == "codec":
            n_codec += 1
            cfg = {s: v for s, v in c["cfg"].items() if v != "unset"}
            if len(cfg) == 2 and not thorough and ctx.rng.random() > 0.3:
                continue
            for via in ("text", "dict", "kwargs"):
                args = {"cfg": cfg, "via": via}
                if via == "text":
                    args["sep"] = ctx.rng.choice([",", ", ", ";", " , ", ",\n", " ;\t"])
                    args["pad"] = ctx.rng.choice(["", "", " ", "\n"])
                    args["bare_layout"] = ctx.rng.random() < 0.5
                cases.append({"id": "c%d%s" % (i, via[0]), "kind": "c13_codec", "abs": {"kind": "codec", "cfg": cfg},
                              "args": args})
        else:
            n_scn += 1
            cases.append({"id": "s%d" % i, "kind": "c13_scenario",
                          "abs": {"kind": "scenario", "scn": c["scn"], "used": c["used"]},
                          "args": {"scn": c["scn"], "ref": c["ref"]}})
            # the same scenario through parse_tracts(config=..., keyword) of the description / of its TractList: the config
            # text is the later config channel, the keyword the keyword channel, of that one call
            # a tract built from its components (Tract.from_twprgesec: "parameters are the same as __init__()")
            if c["scn"]["target"] == "tract" and c["scn"]["s"] not in ("default_ns", "default_ew"):
                cases.append({"id": "s%dc" % i, "kind": "c13_scenario",
                              "abs": {"kind": "scenario", "scn": c["scn"], "used": c["used"]},
                              "args": {"scn": dict(c["scn"], ctor="components"), "ref": c["ref"]}})
            if c["scn"]["target"] == "plss" and c["scn"]["s"] in TRACT_LEVEL:
                cases.append({"id": "s%db" % i, "kind": "c13_scenario",
                              "abs": {"kind": "scenario", "scn": c["scn"], "used": c["used"]},
                              "args": {"scn": dict(c["scn"], bulk=ctx.rng.choice(["plss", "tractlist"])), "ref": c["ref"]}})
    if not n_codec or not n_scn:
        raise core.MachineryFailure("Config emitted %d codec / %d scenario cases" % (n_codec, n_scn))
    # random full assignments for the codec
    for i in range(3000 if thorough else 400):
        cfg = {}
        for s in SETTINGS:
            if ctx.rng.random() < 0.45:
                cfg[s] = ctx.rng.choice(VALUES[s])
        via = ctx.rng.choice(["text", "dict", "kwargs"])
        cases.append({"id": "r%d" % i, "kind": "c13_codec", "abs": {"kind": "codec", "cfg": cfg},
                      "args": {"cfg": cfg, "via": via, "sep": ctx.rng.choice([",", ", ", ";", ",\n"]), "pad": ctx.rng.choice(["", " ", "\n"]),
                               "bare_layout": ctx.rng.random() < 0.5}})
    for i, t in enumerate(UNKNOWN):
        for via in ("text", "plss", "tract"):
            cases.append({"id": "u%d%s" % (i, via[:2]), "kind": "c13_unknown", "abs": {"kind": "unknown"},
                          "args": {"text": t, "via": via}})
    ctx.exhaustive = True
    check(ctx, cases)
    ctx.rule = ("codec: every assignment with 1 or 2 settings set (TLC-enumerated; pairs sampled 30% in quick) and seeded random "
                "full assignments, through text / from_dict / from_kwargs, decompiled and read back; 10 unknown names x 3 entry "
                "points; precedence: every scenario of spec/Config.tla (target x setting x value x channel x optional "
                "conflicting value in a weaker channel x optionally a second keyword-less parse) executed on a probe description chosen per setting together with its "
                "reference scenario; non-trivial = distinct case (for scenarios: the governing value changes the parse result "
                "relative to the default)")
    ctx.assumptions += ["probe descriptions per setting (harness/impl.py C13_TEXTS) on which the setting is observable",
                        "a .config assigned after creation is the later, hence stronger, config channel",
                        "qq_depth_max values are shifted to 2..4 so that max >= the default minimum"]


def replay(ctx, payload):
    case = payload["case"]
    fails = check(ctx, [case])
    if fails:
        print("VIOLATION property=C13 replay=(replayed) clause=%s" % fails[0][1])
        return 1
    print("replayed case passes on the current tree: %r" % (case["abs"],))
    return 0
