"""C10  Flags are well-typed, shared with tracts, and raised whenever warranted.

spec/ObsInvariants.tla  ClauseC10
spec/PlssDesc.tla       token-level input space;  spec/PlssDoc.tla  document shapes for trigger placement
"""
from .. import core, plssdoc, plsssoup, soup
from .. import render as R

PROP = "C10"
# phrase -> the word(s) that must show up in the warning's context
PHRASES = {
    "less_except": [("less and except", "less and except"), ("except", "except"), ("limited to", "limit")],
    "insofar": [("insofar as", "insofar"), ("only insofar as", "insofar"), ("in so far as", "in so far")],
    "including": [("including", "includ")],
    "depth": [("from the surface to the base of", "surface"), ("depths", "depth"), ("surface to the base of", "base")],
    "well": [("wellbore", "wellbore"), ("well", "well")],
}
PLAIN_BLOCKS = ["NE/4", "W/2", "S/2N/2", "Lots 1 - 3, S/2NE/4", "That part lying north of the river", "N½SW¼",
                "Lots 1 - 3, Lot 1", "NE/4, NE/4NE/4", "Lots 5 - 3"]
POSTS = [None, None, "parse_tracts", "parse_tracts_twice", "reparse", "tract_parse", "dry_run"]
TAILS = {"less_except": "the old road", "insofar": "it lies north of the river", "including": "all accretions",
         "depth": "the Dakota", "well": "of the Smith #1"}


def trigger_cases(ctx, shapes, prefix="g"):
    cases = []
    for i, a in enumerate(shapes):
        doc = plssdoc.concretise(a, ctx.rng, vary_tr=True)
        ids = sorted(doc["blocks"])
        for b in ids:
            doc["blocks"][b] = ctx.rng.choice(PLAIN_BLOCKS)
        kind = ctx.rng.choice(sorted(PHRASES))
        phrase, key = ctx.rng.choice(PHRASES[kind])
        b = ctx.rng.choice(ids)
        place = ctx.rng.choice(["start", "mid", "end"])
        blk = doc["blocks"][b]
        cap = phrase[0].upper() + phrase[1:] if ctx.rng.random() < 0.5 else phrase
        if place == "start":
            doc["blocks"][b] = "%s %s %s" % (cap, TAILS[kind], blk) if kind in ("depth", "well") else "%s %s" % (cap, blk)
        elif place == "mid":
            doc["blocks"][b] = "%s, %s %s" % (blk, phrase, TAILS[kind])
        else:
            doc["blocks"][b] = "%s %s" % (blk, phrase)
        r = ctx.rng.random()
        if r < 0.25 and doc["layout"] in ("TRS_desc", "S_desc_TR"):
            # every section is rejected (no colon, colon required): the chunk is re-run as copy_all
            text = plssdoc.render_doc(doc, ctx.rng, colons=False)
            cfg = "sec_colon_required"
        elif r < 0.4:
            # a layout that does not fit the text (text stays inside the single chunk, so it is still scanned)
            text = plssdoc.render_doc(doc, ctx.rng)
            cfg = ctx.rng.choice(["TRS_desc", "desc_STR", "S_desc_TR", "TR_desc_S", "copy_all", "TRS_desc,sec_within"])
        elif r < 0.5 and doc["layout"] == "TRS_desc":
            # the only sections follow "of": continuation wording, no tract in the first pass
            text = plssdoc.render_doc(doc, ctx.rng).replace(" Sec", " of Sec").replace("\nSec", " of Sec")
            cfg = None
        else:
            text = plssdoc.render_doc(doc, ctx.rng)
            cfg = ctx.rng.choice([None, "segment", "sec_colon_cautious", "parse_qq", "parse_qq", "clean_qq,parse_qq", "segment,sec_within"])
        if ctx.rng.random() < 0.12:
            # the wording stands outside the description proper - before the first / after the last Twp/Rge -, where
            # `segment` has no chunk for it (§8 #12): it warrants the warning all the same
            for b in ids:
                doc["blocks"][b] = ctx.rng.choice(PLAIN_BLOCKS)
            extra = "%s %s" % (cap, TAILS[kind])
            body = plssdoc.render_doc(doc, ctx.rng)
            text = (extra + ", " + body) if doc["layout"] in ("TRS_desc", "TR_desc_S") else (body + ", " + extra)
            # (alone and together with the other modes: each of them is documented to combine with `segment`)
            cfg = ctx.rng.choice(["segment", "segment", "segment,parse_qq", None, "segment,sec_within", "sec_within,segment,parse_qq",
                                  "segment,sec_colon_cautious", "sec_within"])
        if ctx.rng.random() < 0.06:
            # a degenerate description: no Twp/Rge at all (a section and its block, or the block alone), parsed with
            # `segment` and / or a mandated layout - nothing to segment by, the wording is there all the same
            extra = "%s %s" % (cap, TAILS[kind])
            text = ctx.rng.choice(["Sec 14: NE/4, %s", "%s", "NE/4 of Section 5, %s"]) % extra
            cfg = ctx.rng.choice(["TRS_desc,segment", "TR_desc_S,segment", "desc_STR,segment", "S_desc_TR,segment", "segment",
                                  "segment,sec_within", None, "TRS_desc"])
        cases.append({"id": "%s%d" % (prefix, i), "kind": "plss", "origin": "trigger placement", "abs": {},
                      "args": {"text": text, "config": cfg, "source": "SRC-1", "post": ctx.rng.choice(POSTS),
                               "triggers": [{"kind": kind, "phrase": key}]}})
    return cases


def soup_cases(ctx, n):
    cases = []
    for i in range(n):
        args = {"text": soup.rand_text(ctx.rng), "config": soup.rand_config(ctx.rng), "source": "SRC-1"}
        if ctx.rng.random() < 0.4:
            args["kw"] = {"parse_qq": True}
        if ctx.rng.random() < 0.4:
            args["post"] = ctx.rng.choice(POSTS[2:])
        cases.append({"id": "s%d" % i, "kind": "plss", "origin": "soup", "abs": {}, "args": args})
    return cases


def run(ctx):
    thorough = ctx.tier == "thorough"
    cases = plsssoup.model_cases(ctx, 4 if thorough else 3, plsssoup.ALL_CONFIGS, keep=0.5 if thorough else 1.0)
    ctx.exhaustive = not thorough
    plsssoup.judge(ctx, PROP, cases)
    plsssoup.judge(ctx, PROP, soup_cases(ctx, 40000 if thorough else 5000))
    res = ctx.tlc("PlssDoc", {"MaxGroups": 2, "MaxSecs": 2, "TRIds": {1, 2}, "Fault": "none", "EmitCases": True},
                  invariants=["EmitCase"], workers=1, count=False)
    shapes = [a for a in res.cases if ctx.rng.random() < (1.0 if thorough else 0.3)]
    plsssoup.judge(ctx, PROP, trigger_cases(ctx, shapes))
    ctx.rule = ("(a) token sequences of spec/PlssDesc.tla up to %d tokens x 15 configurations, (b) seeded soup x random "
                "configurations (typing, pairing, hand-down, flawed <=> error flag, error TRS => error flag), (c) documents "
                "(shapes from spec/PlssDoc.tla) with one of 12 trigger phrases placed at the start / middle / end of a random "
                "block (12%% of them outside the description proper: before the first / after the last Twp/Rge) x 6 configurations (warning of that kind raised, trigger word in its context), a share of (b) and (c) observed after a re-parse (parse_tracts / parse / Tract.parse); non-trivial = distinct "
                "(text, configuration)" % (4 if thorough else 3))
    ctx.assumptions += ["flags are compared as multisets, flag/line pairing by first tuple component (R2)",
                        "trigger placements are inside description blocks of documented layouts (text that `segment` "
                        "leaves outside every chunk is not part of this family)"]


def replay(ctx, payload):
    return plsssoup.generic_replay(ctx, PROP, payload)
