"""C06  Tract parsing is compositional: lots, divisions, acreages and aliquots.

spec/TractParse.tla       element / separator grammar and the extraction model (which descriptions are compositional)
spec/TractParseTrace.tla  whole = concatenation of the elements parsed alone, lots_qqs, ilots, divisions, acreages, dup flags
"""
from .. import core

CHAINS = ["NE/4", "N/2SW/4", "S/2N/2", "W/2", "SE/4NW/4", "N½NE¼", "E/2SE/4", "NW/4"]
# chains with their abstract reading (components in text order, as in spec/Aliquot.tla): what such an element yields on
# its own is judged by the aliquot specification, not by asking the library a second time
CHAIN_ABS = {"NE/4": ["NE"], "N/2SW/4": ["N", "SW"], "S/2N/2": ["S", "N"], "W/2": ["W"], "SE/4NW/4": ["SE", "NW"],
             "N½NE¼": ["N", "NE"], "E/2SE/4": ["E", "SE"], "NW/4": ["NW"],
             "N/2NE/4NE/4": ["N", "NE", "NE"], "NE/4NE/4NE/4": ["NE", "NE", "NE"], "S/2N/2NW/4SW/4": ["S", "N", "NW", "SW"],
             "W½SE¼SW¼": ["W", "SE", "SW"], "E/2W/2NE/4": ["E", "W", "NE"], "SW/4SE/4NW/4": ["SW", "SE", "NW"],
             "N/2S/2SE/4NE/4": ["N", "S", "SE", "NE"],
             # bare spellings (a half written with its digit, then quarters by their letters only) and worded joiners
             "N2SWNE": ["N", "SW", "NE"], "E2SENW": ["E", "SE", "NW"], "S2NENW": ["S", "NE", "NW"], "W2SESW": ["W", "SE", "SW"],
             "N2SW": ["N", "SW"], "E2NW": ["E", "NW"], "W2 of NW of NE": ["W", "NW", "NE"], "S2SWSE": ["S", "SW", "SE"],
             "N/2 of the SE/4 of the NW/4": ["N", "SE", "NW"], "South Half of the Northeast Quarter": ["S", "NE"]}
DEEP_CHAINS = [c for c in CHAIN_ABS if len(CHAIN_ABS[c]) >= 3 or c not in CHAINS]
CFGX = [None, None, None, "qq_depth.1", "qq_depth.3", "qq_depth_min.1,qq_depth_max.2", "break_halves", "qq_depth_min.3,break_halves",
        "qq_depth_max.3,break_halves", "qq_depth_max.4,break_halves", "qq_depth_max.3", "qq_depth_min.1,break_halves"]


def depth_settings(cfgx):
    """(dmin, dmax, bh) of a depth configuration text, in the terms of spec/Aliquot.tla (dmax 0: none)."""
    dmin, dmax, bh = 2, 0, False
    for item in (cfgx or "").split(","):
        k, _, v = item.partition(".")
        if k == "qq_depth":
            dmin = dmax = int(v)
        elif k == "qq_depth_min":
            dmin = int(v)
        elif k == "qq_depth_max":
            dmax = int(v)
        elif k == "break_halves":
            bh = True
    return dmin, dmax, bh
HALVES = [("N/2", "N2"), ("S½", "S2"), ("E/2", "E2"), ("NE/4", "NE"), ("W/2NW/4", "W2NW"), ("North Half", "N2")]
SEP = {"COMMA": ", ", "SEMI": "; ", "NL": "\n"}
KINDS = ["LOT", "LOTS_THRU", "LOTS_AND", "LOTAC", "DIV", "ALQ", "ALL"]
LOTW = ["Lot", "L", "Lt"]


def _lotnum(rng):
    return rng.choice([rng.randint(1, 9), rng.randint(1, 9), rng.randint(10, 40)])


def render_element(kind, rng, used_acre_lots):
    if kind == "LOT":
        w = rng.choice(LOTW)
        n = _lotnum(rng)
        return {"kind": kind, "text": "%s%s%d" % (w, rng.choice([" ", " ", ""]) if w != "Lt" else " ", n), "want_lots": [n]}
    if kind == "LOTS_THRU":
        a = _lotnum(rng)
        b = a + rng.randint(1, 3)
        return {"kind": kind, "text": "%s %d%s%d" % (rng.choice(["Lots", "Lots", "Lts", "L"]), a,
                                                    rng.choice([" - ", "-", " through ", " thru ", " to ", " – "]), b),
                "want_lots": list(range(a, b + 1))}
    if kind == "LOTS_AND":
        a, b = _lotnum(rng), _lotnum(rng)
        return {"kind": kind, "text": "Lots %d%s%d" % (a, rng.choice([" and ", ", ", " & "]), b), "want_lots": [a, b]}
    if kind == "LOTAC":
        n = _lotnum(rng)
        # acreages as they are written: two decimals, one, four, or none; tight against the number or after a blank
        ac = rng.choice(["%d.%02d" % (rng.randint(10, 49), rng.randint(0, 99)), "%d.%d" % (rng.randint(10, 49), rng.randint(0, 9)),
                         "%d.%04d" % (rng.randint(10, 49), rng.randint(0, 9999)), "%d" % rng.randint(10, 49),
                         # (small, zero and large stated acreages: the statement is attributed whatever it says)
                         rng.choice(["0.00", "0", "0.0", ".50", "0.25", "160.00", "640"])])
        br = rng.choice(["()", "[]"])
        el = {"kind": kind, "text": "Lot %d%s%s%s%s" % (n, rng.choice([" ", " ", ""]), br[0], ac, br[1]), "lot": "L%d" % n, "ac": ac,
              "want_lots": [n]}
        return el
    if kind == "DIV":
        txt, pre = rng.choice(HALVES)
        a = rng.randint(1, 8)
        conn = rng.choice([" of ", " of ", " "])
        form = rng.random()
        if form < 0.5:
            lots, n, want = "Lots %d and %d" % (a, a + 1), 2, [a, a + 1]
        elif form < 0.75:
            lots, n, want = "Lot %d" % a, 1, [a]
        else:
            lots, n, want = "Lots %d - %d" % (a, a + 2), 3, [a, a + 1, a + 2]
        return {"kind": kind, "text": "%s%s%s" % (txt, conn, lots), "div_prefix": pre, "nlots": n, "want_lots": want}
    if kind == "ALQ":
        txt = rng.choice(CHAINS + CHAINS + DEEP_CHAINS)
        return {"kind": kind, "text": txt, "chain": CHAIN_ABS[txt]}
    return {"kind": "ALL", "text": rng.choice(["ALL", "ALL", "All"])}


def mk_case(cid, kinds, seps, suppress, rng, origin="tlc"):
    els, acres, stated = [], {}, {}
    for k in kinds:
        el = render_element(k, rng, stated)
        els.append(el)
        if k == "LOTAC":
            stated.setdefault(el["lot"], []).append(el["ac"])
    for lot, acs in stated.items():
        if len(acs) == 1:            # an acreage stated once (conflicting statements are not claimed, R3)
            acres[lot] = acs[0]
    text = els[0]["text"]
    for s, el in zip(seps, els[1:]):
        text += SEP[s] + el["text"]
    return {"id": cid, "kind": "c06", "origin": origin,
            "abs": {"kinds": list(kinds), "seps": list(seps), "suppress": bool(suppress)},
            "args": {"text": text, "elements": els, "suppress": bool(suppress), "acres": acres,
                     "seq": rng.choice([False, False, False, True, "bulk", "thrice", "plss_steps"]),
                     # depth settings (the same for the whole and its parts); None: the defaults
                     "cfgx": rng.choice(CFGX)}}


def neutralised(case, what):
    """The same case with the trigger of a known finding removed."""
    a = case["abs"]
    els = case["args"]["elements"]
    kinds, seps = list(a["kinds"]), list(a["seps"])
    if what == "F10":
        seps = ["SEMI" if s == "NL" else s for s in seps]
    else:   # F12: move every ALL to the very end (only one survives there)
        keep = [i for i, k in enumerate(kinds) if k != "ALL"]
        if len(keep) == len(kinds):
            return None
        order = keep + [next(i for i, k in enumerate(kinds) if k == "ALL")]
        els = [els[i] for i in order]
        kinds = [kinds[i] for i in order]
        seps = ["SEMI"] * (len(kinds) - 1)
        seps = [("SEMI" if s == "NL" else s) for s in seps]
    text = els[0]["text"]
    for s, el in zip(seps, els[1:]):
        text += SEP[s] + el["text"]
    c = {"id": case["id"] + "_" + what, "kind": "c06", "origin": "neutralised",
         "abs": {"kinds": kinds, "seps": seps, "suppress": a["suppress"]},
         "args": dict(case["args"], text=text, elements=els)}
    return c


def records(cases, obs):
    recs = []
    for c in cases:
        o = obs.get(c["id"])
        if o is None:
            continue
        a = c["abs"]
        empty = {"lots": [], "qqs": [], "lots_qqs": [], "ilots": [], "lotnums": [], "dup_lot": False, "dup_qq": False}
        recs.append({"id": c["id"], "kinds": a["kinds"], "seps": a["seps"], "suppress": a["suppress"],
                     "whole": o.get("whole") or empty,
                     "parts": [dict({k: v for k, v in p.items() if k not in ("raw", "pieces")}, lots_ok=bool(p.get("lots_ok", True)))
                               for p in (o.get("parts") or [])],
                     "acres_ok": bool(o.get("acres_ok", True)), "exc": o.get("exc", "none")})
    return recs


def element_records(cases, obs):
    """One spec/AliquotTrace.tla record per aliquot-chain element parsed on its own: (chain, depth settings, pieces)."""
    recs, seen = [], set()
    for c in cases:
        o = obs.get(c["id"])
        if o is None or o.get("exc", "none") != "none":
            continue
        dmin, dmax, bh = depth_settings(c["args"].get("cfgx"))
        for j, (el, p) in enumerate(zip(c["args"]["elements"], o.get("parts") or [])):
            chain = ["ALL"] if el["kind"] == "ALL" else el.get("chain") if el["kind"] == "ALQ" else None
            if not chain or p.get("pieces") is None:
                continue
            recs.append({"id": "%s#%d" % (c["id"], j), "chain": chain, "dmin": dmin, "dmax": dmax, "bh": bh,
                         "exc": "none", "pieces": p["pieces"]})
    return recs


def check(ctx, cases):
    consts = {"MaxElems": 1, "Fault": "none", "EmitCases": False}
    obs = ctx.impl_map("c06", cases)
    fails, drifts = ctx.validate("TractParseTrace", records(cases, obs), consts)
    # "what each element yields on its own": the yield of an aliquot-chain element is judged by spec/Aliquot.tla (tiles
    # the described area at the configured depth), so that a whole and its parts that are wrong in the same way do not
    # vouch for each other
    erecs = element_records(cases, obs)
    efails, _ = ctx.validate("AliquotTrace", erecs, {"MaxLen": 1, "DMins": {1}, "DMaxs": {0}, "GridExp": 12, "Fault": "none",
                                                     "EmitCases": False}, count=False) if erecs else ([], [])
    ctx.element_yields = getattr(ctx, "element_yields", 0) + len(erecs)
    already = {f[0] for f in fails}
    for eid, clause, *_ in efails:
        cid = eid.rsplit("#", 1)[0]
        if cid not in already:
            already.add(cid)
            fails.append((cid, "element_yield_" + clause))
    by_id = {c["id"]: c for c in cases}
    for c in cases:
        if c["id"] in obs:
            ctx.nontrivial.add((c["args"]["text"], c["args"]["suppress"]))
    # known findings: counterfactual attribution
    pending = []
    for cid, clause, *_ in fails:
        c = by_id[cid]
        a = c["abs"]
        cand = []
        if any(a["kinds"][i] == "ALQ" and i < len(a["seps"]) and a["seps"][i] == "NL" for i in range(len(a["kinds"]))):
            cand.append("F10")
        if any(k == "ALL" and i < len(a["kinds"]) - 1 for i, k in enumerate(a["kinds"])):
            cand.append("F12")
        pending.append((c, clause, cand))
    open_ids = {f["id"] for f in ctx.open_findings()}
    neutral = []
    for c, clause, cand in pending:
        for w in cand:
            if w in open_ids:
                n = neutralised(c, w)
                if n is not None:
                    neutral.append(n)
    nobs = ctx.impl_map("c06", neutral) if neutral else {}
    nfails, _ = ctx.validate("TractParseTrace", records(neutral, nobs), consts, count=False) if neutral else ([], [])
    nfailed = {f[0] for f in nfails}
    out = []
    for c, clause, cand in pending:
        if clause in ("lots_differ_from_concatenation_of_elements", "aliquots_differ_from_concatenation_of_elements"):
            # attributed when neutralising ALL candidate triggers together... each in turn must make the clause hold
            attributed = None
            both = [w for w in cand if w in open_ids]
            if both:
                # apply the neutralisations cumulatively
                ok_single = [w for w in both if (c["id"] + "_" + w) in nobs and (c["id"] + "_" + w) not in nfailed]
                if ok_single:
                    attributed = ok_single[0]
                elif len(both) == 2:
                    attributed = "F10+F12"
            if attributed == "F10+F12":
                n1 = neutralised(c, "F10")
                n2 = neutralised(n1, "F12") if n1 else None
                if n2 is not None:
                    o2 = ctx.impl_map("c06", [n2])
                    f2, _ = ctx.validate("TractParseTrace", records([n2], o2), consts, count=False)
                    if not f2:
                        ctx.known("F10")
                        ctx.known("F12")
                        continue
                attributed = None
            if attributed:
                ctx.known(attributed)
                continue
        ctx.violation(c, clause, {"observed": obs[c["id"]].get("raw"), "parts": [p.get("raw") for p in obs[c["id"]].get("parts", [])]})
        out.append((c["id"], clause))
    failed = {f[0] for f in fails}
    for cid in drifts:
        if cid not in failed:
            ctx.add_drift(1, {"text": by_id[cid]["args"]["text"], "observed": obs[cid].get("raw")})
    for c in cases[:3]:
        ctx.sample({"text": c["args"]["text"], "suppress": c["args"]["suppress"], "observed": obs.get(c["id"], {}).get("raw")})
    return out


def run(ctx):
    thorough = ctx.tier == "thorough"
    invs = ["PunctuationSeparates", "LotsNeverLost", "DeviationsAreNamed"]
    n = 4 if thorough else 3
    ctx.tlc("TractParse", {"MaxElems": n, "Fault": "none", "EmitCases": False}, invariants=invs)
    ctx.tlc("TractParse", {"MaxElems": 2, "Fault": "none", "EmitCases": False}, invariants=invs, coverage=True, count=False)
    ctx.require_actions(["Choose"])
    ctx.tlc("TractParse", {"MaxElems": 2, "Fault": "comma_fuses", "EmitCases": False}, invariants=invs,
            expect_violation="comma_fuses", count=False)
    res = ctx.tlc("TractParse", {"MaxElems": n, "Fault": "none", "EmitCases": True}, invariants=["EmitCase"], workers=1,
                  count=False)
    cases = []
    for i, c in enumerate(res.cases):
        if thorough and len(c["kinds"]) == 4 and ctx.rng.random() > 0.15:
            continue
        cases.append(mk_case("e%d" % i, c["kinds"], c["seps"], c["suppress"], ctx.rng))
    if not cases:
        raise core.MachineryFailure("TractParse emitted no cases")
    ctx.exhaustive = not thorough
    for i in range(6000 if thorough else 1000):
        L = ctx.rng.randint(n + 1, 7)
        kinds = [ctx.rng.choice(KINDS[:-1] + ["ALQ", "LOT"]) for _ in range(L)]
        if ctx.rng.random() < 0.3:
            kinds.append("ALL")
        seps = [ctx.rng.choice(["COMMA", "SEMI", "COMMA", "SEMI", "NL"]) for _ in range(len(kinds) - 1)]
        cases.append(mk_case("r%d" % i, kinds, seps, ctx.rng.random() < 0.4, ctx.rng, origin="random"))
    check(ctx, cases)
    ctx.rule = ("descriptions = every (element kinds, separators, suppress_lot_divs) of spec/TractParse.tla up to %d elements "
                "(7 kinds, 3 separators)%s + seeded random sequences of %d..8 elements; each rendered with random lot "
                "numbers 1..9 (duplicates happen), acreages, division aliquots, chains; whole and every element parsed "
                "separately; every aliquot-chain element's own yield (%d of them) judged by spec/Aliquot.tla (C02Clause) under the "
                "case's depth settings (12 settings incl. qq_depth_max x break_halves, chains of 1..4 components); "
                "non-trivial = distinct (text, suppress)" % (n, " (15%% of length 4)" if thorough else "", n + 1,
                                                             getattr(ctx, "element_yields", 0)))
    ctx.assumptions += ["an acreage is checked only for lots whose acreage is stated once (R3)",
                        "lots / aliquots are compared by their reported names"]


def replay(ctx, payload):
    case = payload["case"]
    out = check(ctx, [case])
    if out:
        print("VIOLATION property=C06 replay=(replayed) clause=%s" % out[0][1])
        return 1
    print("replayed case passes (or is a listed known finding) on the current tree: %r" % case["args"]["text"])
    return 0
