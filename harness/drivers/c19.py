"""C19  Bulk export is faithful, ordered and total over documented attributes.

spec/Export.tla       the file as a sequence of rows under tracts_to_csv / TractWriter operations
spec/ExportTrace.tla  every call of every history: rows re-read from the file = model rows, return values, cells;
                      dict / list record forms
"""
from .. import core

ATTRS = ["trs", "twp", "twp_num", "twp_ns", "rge", "rge_num", "rge_ew", "twprge", "sec", "sec_num", "qqs", "aliquots_whole",
         "lots", "ilots", "lots_qqs", "desc", "orig_desc", "pp_desc", "desc_is_flawed", "w_flags", "w_flag_lines", "e_flags",
         "e_flag_lines", "flags", "flag_lines", "lot_acres", "source"]
UNKNOWN = ["no_such_attribute", "foo"]


def pick_attrs(rng, full=False, with_unknown=False):
    if full:
        a = list(ATTRS)
    else:
        a = rng.sample(ATTRS, rng.randint(2, 8))
    for need in ("trs", "desc"):
        if need not in a:
            a.insert(rng.randint(0, len(a)), need)
    if with_unknown:
        a.insert(rng.randint(0, len(a)), rng.choice(UNKNOWN))
    if not full:
        rng.shuffle(a)
    if rng.random() < 0.15:
        # a name asked for twice is two columns (list forms, files) and one key (dict forms)
        a.insert(rng.randint(0, len(a)), rng.choice(a))
    return a


def check(ctx, cases):
    obs = {}
    by_kind = {}
    for c in cases:
        by_kind.setdefault(c["kind"], []).append(c)
    for k, cs in by_kind.items():
        obs.update(ctx.impl_map(k, cs, chunksize=10))
    events, by_id = [], {}
    for c in cases:
        o = obs.get(c["id"])
        if o is None:
            continue
        by_id[c["id"]] = c
        for ev in o["events"]:
            events.append({k: v for k, v in ev.items() if k != "exc_msg"})
        ctx.nontrivial.add(core.json.dumps(c["args"], sort_keys=True))
    consts = {"MaxOps": 1, "Fault": "none", "EmitCases": False}
    fails, _ = ctx.validate("ExportTrace", events, consts, invariants=(), parallel=4, min_chunk=100000)
    seen = set()
    for tid, clause, *rest in fails:
        if tid in seen:
            continue
        seen.add(tid)
        ctx.violation(by_id[tid], clause, {"at_call": rest[0] if rest else None, "events": obs[tid]["events"]})
    for k in by_kind:
        c = by_kind[k][0]
        ctx.sample({"args": c["args"], "observed": obs.get(c["id"], {}).get("events", [])[-1:]})
    return fails


def run(ctx):
    thorough = ctx.tier == "thorough"
    invs = ["HeaderOnlyFirst", "StartsWithHeader", "LastCallRows", "UidsParallel", "UidNumbersDistinctPerCall",
            "PtagsParallel", "LastCallPlus"]
    maxops = 4 if thorough else 3
    ctx.tlc("Export", {"MaxOps": maxops + 1, "Fault": "none", "EmitCases": False}, invariants=invs,
            properties=["ReopenKeepsRows", "RejectedWriteChangesNothing"])
    ctx.tlc("Export", {"MaxOps": 3, "Fault": "none", "EmitCases": False}, invariants=invs, coverage=True, count=False)
    ctx.require_actions(["Csv", "WInit", "WWrite", "WWriteBad", "WClose", "WOpen"])
    for fault in ("append_always_header", "header_after_open", "uid_not_advanced", "plus_first_row_only", "bad_write_partial"):
        ctx.tlc("Export", {"MaxOps": 3, "Fault": fault, "EmitCases": False}, invariants=invs,
                properties=["RejectedWriteChangesNothing"], expect_violation=fault, count=False)
    res = ctx.tlc("Export", {"MaxOps": maxops, "Fault": "none", "EmitCases": True}, invariants=["EmitCase"], workers=1, count=False)
    cases = []
    for i, c in enumerate(res.cases):
        if thorough and ctx.rng.random() > 0.5:
            continue
        attrs = pick_attrs(ctx.rng, full=(i % 4 == 0), with_unknown=(i % 5 == 1))
        cases.append({"id": "h%d" % i, "kind": "c19_file", "abs": {},
                      "args": {"ops": c["ops"], "attrs": attrs, "nice": ctx.rng.choice(["none", "true", "list", "dict"])}})
    if not cases:
        raise core.MachineryFailure("Export emitted no histories")
    # longer behaviours straight from the specification (TLC simulation mode)
    sim = ctx.tlc("Export", {"MaxOps": 9, "Fault": "none", "EmitCases": True}, invariants=["EmitCase"], workers=1,
                  count=False, simulate="num=%d" % (1500 if thorough else 150), depth=11)
    seen_sim = set()
    for c in sim.cases:
        key = core.json.dumps(c, sort_keys=True)
        if key in seen_sim:
            continue
        seen_sim.add(key)
        attrs = pick_attrs(ctx.rng, full=(len(seen_sim) % 4 == 0), with_unknown=(len(seen_sim) % 5 == 1))
        cases.append({"id": "m%d" % len(seen_sim), "kind": "c19_file", "abs": {},
                      "args": {"ops": c["ops"], "attrs": attrs, "nice": ctx.rng.choice(["none", "true", "list", "dict"])}})
    ctx.notes["simulated_behaviours"] = len(seen_sim)
    ctx.exhaustive = not thorough
    k = 0
    for rep in range(40 if thorough else 8):
        for form in ("to_dict", "to_list", "iter_to_dict", "iter_to_list"):
            for via in ("plss", "tractlist", "tract"):
                attrs = pick_attrs(ctx.rng, full=(rep == 0), with_unknown=(rep % 2 == 1))
                cases.append({"id": "r%d" % k, "kind": "c19_records", "abs": {},
                              "args": {"attrs": attrs, "form": form, "via": via, "d": ctx.rng.choice([1, 2]),
                                       "shape": ctx.rng.choice(["star", "list", "group_first", "group_middle", "nested_list"])}})
                k += 1
    check(ctx, cases)
    ctx.rule = ("file histories = every behaviour of spec/Export.tla with %d operations (new / existing file; tracts_to_csv w|a; "
                "TractWriter init w|a, write(description | None), close, open) x random attribute subsets/orders (all 27 "
                "documented attributes every 4th history, an unknown name every 5th) x 4 header options, with and without the UID column ('0027.a-c' = number per write() call, index, total); "
                "record forms: tracts_to_dict / tracts_to_list / iter_* on PLSSDesc and TractList; non-trivial = distinct case"
                % maxops)
    ctx.assumptions += ["rows are identified by their (trs, desc) cells; a list / dict cell must contain the str() of its leaves "
                        "in order (separator not asserted, R2); None may be written as '' or 'None'",
                        "two probe descriptions with lots, acreages, flags with context, multi-line text, commas and quotes"]


def replay(ctx, payload):
    case = payload["case"]
    fails = check(ctx, [case])
    if fails:
        print("VIOLATION property=C19 replay=(replayed) clause=%s" % fails[0][1])
        return 1
    print("replayed case passes on the current tree")
    return 0
