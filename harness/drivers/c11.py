"""C11  (shared soup driver)

spec/PlssDesc.tla       token-level input space (every token sequence x configuration)
spec/ObsInvariants.tla  Returned / AtLeastOneTract
spec/PlssDescTrace.tla  verdicts
"""
from .. import core, plsssoup

PROP = "C11"


def run(ctx):
    thorough = ctx.tier == "thorough"
    cases = plsssoup.model_cases(ctx, 4 if thorough else 3, plsssoup.ALL_CONFIGS, keep=0.5 if thorough else 1.0)
    ctx.exhaustive = not thorough
    plsssoup.judge(ctx, PROP, cases)
    ctx.rule = "token sequences x configurations of spec/PlssDesc.tla"


def replay(ctx, payload):
    return plsssoup.generic_replay(ctx, PROP, payload)
