"""C11  copy_all, forced or as fallback, keeps the whole text in exactly one tract.

spec/PlssDesc.tla       MustFallBack / BothFound per (token sequence, configuration)
spec/ObsInvariants.tla  ClauseC11
"""
from .. import core, plssdoc, plsssoup, plsstok, soup

PROP = "C11"
FORCED = {"forced_copy_all": True, "must_fall_back": True, "both_found": True}


def forced_cases(ctx, shapes, n_soup):
    cases = []
    k = 0
    for a in shapes:
        doc = plssdoc.concretise(a, ctx.rng, vary_tr=True)
        text = plssdoc.render_doc(doc, ctx.rng)
        for ch in plsstok.CHANNELS:
            cfg = ctx.rng.choice([None, "segment", "sec_within", "sec_colon_required", "parse_qq", "segment,sec_colon_cautious"])
            cases.append({"id": "c%d" % k, "kind": "plss", "origin": "forced copy_all on a document",
                          "abs": {"x": FORCED},
                          "args": {"text": text, "config": cfg, "layout": "copy_all", "layout_channel": ch, "source": "SRC-1"}})
            k += 1
    # documents whose sections have all lost their colon, parsed with the colon required: every section is rejected,
    # the whole text must come back as one tract (a Twp/Rge and a section are there, so no error flag is demanded)
    for j, a in enumerate(shapes):
        if a["layout"] not in ("TRS_desc", "S_desc_TR"):
            continue
        doc = plssdoc.concretise(a, ctx.rng, vary_tr=True)
        text = plssdoc.render_doc(doc, ctx.rng, colons=False)
        args = {"text": text, "source": "SRC-1", "config": ctx.rng.choice(["sec_colon_required", "sec_colon_required,parse_qq",
                                                                                # ("sec_colon_required controls over sec_colon_cautious")
                                                                                "sec_colon_required,sec_colon_cautious",
                                                                                "sec_colon_cautious,parse_qq,sec_colon_required"])}
        cases.append({"id": "n%d" % j, "kind": "plss", "origin": "colon-less document, colon required",
                      "abs": {"x": {"forced_copy_all": False, "must_fall_back": True, "both_found": True}}, "args": args})
    for i in range(n_soup):
        text = soup.rand_text(ctx.rng)
        r = ctx.rng.random()
        if r < 0.5:
            cfg = soup.rand_config(ctx.rng)
            if cfg and any(l in cfg.split(",") for l in soup.LAYOUTS):
                cfg = None
            cases.append({"id": "q%d" % i, "kind": "plss", "origin": "forced copy_all on soup", "abs": {"x": FORCED},
                          "args": {"text": text, "config": cfg, "layout": "copy_all",
                                   "layout_channel": ctx.rng.choice(plsstok.CHANNELS), "source": "SRC-1"}})
        else:
            cases.append({"id": "q%d" % i, "kind": "plss", "origin": "soup", "abs": {},
                          "args": {"text": text, "config": soup.rand_config(ctx.rng), "source": "SRC-1"}})
    return cases


def run(ctx):
    thorough = ctx.tier == "thorough"
    cases = plsssoup.model_cases(ctx, 4 if thorough else 3, plsssoup.ALL_CONFIGS, keep=0.5 if thorough else 1.0)
    ctx.exhaustive = not thorough
    plsssoup.judge(ctx, PROP, cases)
    # the marker-walk model (spec/PlssWalk.tla): design invariants + replay of every terminal state (drift only)
    plsssoup.walk_conformance(ctx, 4 if thorough else 3, keep=0.3 if thorough else 1.0)
    more = plsssoup.model_cases(ctx, 5, ["default", "segment", "required", "seg_required", "f_copy_all", "f_copy_seg"],
                                keep=0.5 if thorough else 0.2, check_model=False, prefix="k", alphabet="core", minlen=4)
    plsssoup.judge(ctx, PROP, more)
    res = ctx.tlc("PlssDoc", {"MaxGroups": 2, "MaxSecs": 2, "TRIds": {1, 2}, "Fault": "none", "EmitCases": True},
                  invariants=["EmitCase"], workers=1, count=False)
    shapes = [a for a in res.cases if ctx.rng.random() < (0.6 if thorough else 0.1)]
    plsssoup.judge(ctx, PROP, forced_cases(ctx, shapes, 30000 if thorough else 4000))
    ctx.rule = ("(a) token sequences of spec/PlssDesc.tla up to %d tokens x 15 configurations with the model's MustFallBack / "
                "BothFound verdict per case (forced copy_all via keyword / config / parse argument; no Twp/Rge; no section; "
                "every section rejected), (b) core-alphabet sequences of 4..5 tokens, (c) multi-tract documents and seeded soup "
                "with copy_all forced through each channel, (d) soup with deduced layouts (never two whole-text tracts; "
                "deduced copy_all => one whole-text tract); non-trivial = distinct (text, configuration, channel)"
                % (4 if thorough else 3))
    ctx.assumptions += ["'the entire preprocessed text' is compared up to what cleanup_desc() strips at the two ends "
                        "(punctuation, blanks, the/all/of/in/and)",
                        "with `segment`, the fallback clause is claimed when the whole text deduces to copy_all (R3)"]


def replay(ctx, payload):
    return plsssoup.generic_replay(ctx, PROP, payload)
