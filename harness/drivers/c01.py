"""C01  Descriptions in the documented layouts parse back to exactly their tracts.

spec/PlssDoc.tla       grammar of documented descriptions as a transition system + Denotation
spec/PlssDocTrace.tla  evaluates C01 on every observation
"""
from .. import core, plssdoc

CONSTS = {"MaxGroups": 1, "MaxSecs": 1, "TRIds": {1}, "Fault": "none", "EmitCases": False}


# "overlap" renderings: the same township repeated, or two townships one of whose spellings is part of the
# other's, written in the spellings whose matched text can begin another occurrence's (known_findings F14)
OVERLAP_MAPS = [{1: 2, 2: 2}, {1: 1, 2: 5}, {1: 5, 2: 1}]


def mk_case(cid, abstract, rng, plain=False, overlap=False):
    if overlap:
        from .. import render as R
        doc = plssdoc.concretise(abstract, rng, block_pool=R.BLOCKS[:10], tr_map=rng.choice(OVERLAP_MAPS))
        text = plssdoc.render_doc(doc, rng, tr_templates=R.TR_TEMPLATES_OVERLAP)
    else:
        # the two abstract Twp/Rge identities stand for two different townships drawn from the pool
        # (1-3 digit numbers, all four N/S x E/W combinations)
        from .. import render as R
        a_, b_ = rng.sample(R.TR_POOL + [11], 2)
        # (a section is any number of up to two digits: irregular townships have more than 36 sections)
        doc = plssdoc.concretise(abstract, rng, tr_map=None if plain else {1: a_, 2: b_},
                                 max_sec=36 if plain or rng.random() < 0.75 else 99)
        text = plssdoc.render_doc(doc, rng, plain=plain)
    # the documented options of pretty_desc(): the word for 'Section' and how continuation lines are justified
    popt = {}
    if not plain and rng.random() < 0.3:
        popt["word_sec"] = rng.choice(["Section ", "Sec. ", "§"])
    if not plain and rng.random() < 0.2:
        popt["justify_linebreaks"] = rng.choice(["\t", "", "    "])
    # the ways to the tracts: at creation (the usual one), a deferred parse, or asking what the tracts would be
    route = None if plain else rng.choice([None, None, None, None, None, "deferred", "dry"])
    return {"id": cid, "kind": "c01",
            "abs": {"layout": doc["layout"], "groups": doc["groups"]},
            "args": {"text": text, "doc": doc, "pretty_opts": popt, "route": route}}


def check(ctx, cases):
    obs = ctx.impl_map("c01", cases)
    recs, by_id = [], {}
    for c in cases:
        o = obs.get(c["id"])
        if o is None:
            continue
        by_id[c["id"]] = c
        recs.append({"id": c["id"], "kind": "c01", "layout": c["abs"]["layout"], "groups": c["abs"]["groups"],
                     "exc": o["exc"], "obs_layout": o["obs_layout"], "n_e": o["n_e"], "tracts": o["tracts"],
                     "pretty_exc": o["pretty_exc"], "pretty": o["pretty"], "plines": o.get("plines") or []})
        ctx.nontrivial.add(c["args"]["text"])
    fails, drifts = ctx.validate("PlssDocTrace", recs, CONSTS, invariants=("Verdict", "Drift"))
    for cid, clause, *_ in fails:
        o = obs[cid]
        ctx.violation(by_id[cid], clause, {"observed": {k: o.get(k) for k in ("exc", "obs_layout", "e_flags", "raw", "pretty_text")}})
    failed = {f[0] for f in fails}
    drifts = [d for d in drifts if d not in failed]
    if drifts:
        ctx.add_drift(len(drifts), {"text": by_id[drifts[0]]["args"]["text"], "pretty_desc": obs[drifts[0]].get("pretty_text"),
                                    "model": "PrettyLines(Denotation(groups)) of spec/PlssDoc.tla"})
    for c in cases[:3]:
        ctx.sample({"text": c["args"]["text"], "observed": obs.get(c["id"], {}).get("raw")})
    return fails


def cleanup_conformance(ctx, maxlen):
    """spec/CleanUp.tla (what cleanup_desc removes at the two ends of a block) against tract.desc - drift only."""
    from .. import impl
    consts = {"MaxLen": maxlen, "Fault": "none", "EmitCases": False}
    invs = ["LoopIsFunction", "FixedPoint", "EndsClean", "OnlyEndsTouched", "KeepsWords"]
    ctx.tlc("CleanUp", consts, invariants=invs, properties=["Shrinks"])
    ctx.tlc("CleanUp", dict(consts, MaxLen=3), invariants=invs, coverage=True, count=False)
    ctx.require_actions(["Choose", "Round", "Stop"])
    ctx.tlc("CleanUp", dict(consts, MaxLen=5, Fault="stale_lower"), invariants=invs, expect_violation="stale_lower", count=False)
    res = ctx.tlc("CleanUp", dict(consts, EmitCases=True), invariants=["EmitCase"], workers=1, count=False)
    cases = []
    for i, c in enumerate(res.cases):
        keep = (0.08 if len(c["input"]) >= 5 else 0.35) if ctx.tier != "thorough" else (0.4 if len(c["input"]) >= 5 else 1.0)
        inp = c["input"]
        two_word = any(inp[j:j + 3] in (["all", "SP", "in"], ["all", "SP", "of"]) for j in range(len(inp) - 2))
        if not two_word and ctx.rng.random() > keep:      # (the two-word entries of the cull list: always kept)
            continue
        # the block follows 'Sec 14:' directly; texts that would read as another section / Twp/Rge do not occur
        # (the only words are a foreign word and the culled words)
        cases.append({"id": "k%d" % i, "kind": "cleanup", "abs": {"input": c["input"], "clean": c["clean"]},
                      "args": {"text": impl.clean_render(c["input"], i)}})
    obs = ctx.impl_map("cleanup_block", cases)
    recs = [{"id": c["id"], "input": c["abs"]["input"], "obs": obs[c["id"]].get("obs") or [], "exc": obs[c["id"]].get("exc", "none")}
            for c in cases if c["id"] in obs]
    _, drifts = ctx.validate("CleanUpTrace", recs, dict(consts, MaxLen=1), invariants=("Drift",))
    if drifts:
        c = next(x for x in cases if x["id"] == drifts[0])
        ctx.add_drift(len(drifts), {"block": c["args"]["text"], "desc": obs[c["id"]].get("raw"), "model": c["abs"]["clean"]})
    ctx.notes["cleanup_model_cases"] = len(recs)


def run(ctx):
    thorough = ctx.tier == "thorough"
    cleanup_conformance(ctx, 5)
    # (3 groups x 2 section groups: 262 560 documents; 3 x 3 would be 19 million)
    base = {"MaxGroups": 3 if thorough else 2, "MaxSecs": 2, "TRIds": {1, 2}}
    invs = ["OneTractPerSection", "ReadingOrder", "Bounded", "PrettyRoundTrip", "PrettyHeaders"]
    ctx.tlc("PlssDoc", dict(base, Fault="none", EmitCases=False), invariants=invs, coverage=not thorough)
    if not thorough:
        ctx.require_actions(["AddGroup", "AddSec", "Finish"])
    ctx.tlc("PlssDoc", dict(base, MaxGroups=2, MaxSecs=2, Fault="last_group_only", EmitCases=False), invariants=invs,
            expect_violation="last_group_only", count=False)
    ctx.tlc("PlssDoc", dict(base, MaxGroups=2, MaxSecs=2, Fault="pretty_one_header", EmitCases=False), invariants=invs,
            expect_violation="pretty_one_header", count=False)
    res = ctx.tlc("PlssDoc", dict(base, Fault="none", EmitCases=True), invariants=["EmitCase"], workers=1, count=False)
    cases = []
    reps = 2 if thorough else 3
    keep = 0.1 if thorough else 1.0
    for i, a in enumerate(res.cases):
        if ctx.rng.random() > keep:
            continue
        cases.append(mk_case("p%d" % i, a, ctx.rng, plain=True))
        for k in range(reps):
            cases.append(mk_case("e%d_%d" % (i, k), a, ctx.rng))
        if len(a["groups"]) > 1:
            cases.append(mk_case("o%d" % i, a, ctx.rng, overlap=True))
    if not thorough:
        # three Twp/Rge groups, one section group each: all shapes that come back to an earlier Twp/Rge (A, B, A) and
        # a tenth of the others (the thorough tier enumerates three groups anyway)
        res3 = ctx.tlc("PlssDoc", dict(base, MaxGroups=3, MaxSecs=1, Fault="none", EmitCases=True), invariants=["EmitCase"],
                       workers=1, count=False)
        for i, a in enumerate(res3.cases):
            g = a["groups"]
            if len(g) != 3:
                continue
            aba = g[0]["tr"] == g[2]["tr"] != g[1]["tr"]
            if aba or ctx.rng.random() < 0.1:
                cases.append(mk_case("t%d" % i, a, ctx.rng))
    if not cases:
        raise core.MachineryFailure("PlssDoc emitted no cases")
    ctx.exhaustive = not thorough
    check(ctx, cases)
    ctx.rule = ("documents = every shape (layout x Twp/Rge groups x section groups x list kind) reachable in "
                "spec/PlssDoc.tla within %d groups x %d section groups%s; each rendered once plainly and %d times with "
                "random documented spellings / separators / numbers / blocks, and (two or more groups) once with repeated / "
                "overlapping Twp/Rge spellings%s; non-trivial = distinct rendered text" % (
                    base["MaxGroups"], base["MaxSecs"], "" if not thorough else " (10% seeded sample)", reps,
                    "" if thorough else "; plus three-group shapes with one section group each (all that return to an earlier "
                                        "Twp/Rge, a tenth of the others)"))
    ctx.assumptions += ["rendering vocabularies of harness/render.py and the layout templates of harness/plssdoc.py",
                        "blocks contain no Twp/Rge or section wording and do not end in a culled word (of/the/in/and)",
                        "desc_STR groups are joined to their Twp/Rge by ', ', ' of ', ' in ' or a blank; "
                        "S_desc_TR by ', ' or ' of ' (not after a block ending in ALL)"]


def replay(ctx, payload):
    case = payload["case"]
    fails = check(ctx, [case])
    if fails:
        print("VIOLATION property=C01 replay=(replayed) clause=%s" % fails[0][1])
        return 1
    print("replayed case passes on the current tree: %r" % case["args"]["text"])
    return 0
