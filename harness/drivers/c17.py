"""C17  Sorting is a stable multi-key permutation with errors last.

spec/SortSpec.tla   documented order (Before), stable passes, the integer-key trick of _sort_custom
spec/SortTrace.tla  evaluates C17 on every observed sort
"""
from .. import core

CONTAINERS = ("TractList", "TRSList", "PLSSDesc")
ILLEGAL = ["x", "q", "a.num", "z.ew", "t.ew", "t.we", "r.ns", "r.sn", "s.ns", "s.ew", "i.ns", "i.we", "t.num,r.ns",
           "s,q", "t.ew.reverse"]
ERR = {"k": "err", "n": 0, "d": "-"}
UNDEF = {"k": "undef", "n": 0, "d": "-"}


def render_key(keys, rng):
    parts = []
    for k in keys:
        s = k["var"]
        if k["method"] != "num" or rng.random() < 0.4:
            s += "." + k["method"]
        if k["rev"]:
            s += rng.choice([".rev", ".reverse"])
        if rng.random() < 0.3:
            s = s.upper()
        parts.append(s)
    sep = rng.choice([",", ", ", " , "])
    out = sep.join(parts)
    if rng.random() < 0.2:
        out = " " + out + " "
    return out


def mk_case(cid, elems, keys, rng, container=None, legal=True, keytext=None):
    container = container or rng.choice(CONTAINERS)
    es = []
    for j, e in enumerate(elems):
        e2 = {"twp": e["twp"], "rge": e["rge"], "sec": dict(e["sec"], d=e["sec"].get("d", "-")),
              "uid": e["uid"] if container != "TRSList" else 0, "pos": j + 1}
        es.append(e2)
    key = keytext if keytext is not None else render_key(keys, rng)
    return {"id": cid, "kind": "c17",
            "abs": {"elems": es, "keys": keys, "legal": legal},
            # (a quarter of the elements are written with upper-case direction letters - '154N97W14')
            "args": {"elems": es, "container": container, "key": key, "upper": [rng.random() < 0.25 for _ in es],
                     # (tracts carry a configuration - e.g. the default directions a PLSSDesc hands down; it says how
                     #  to parse, not where the tract lies)
                     "cfgs": {str(j): rng.choice(["n,w", "s,e", "n", "e", "s,w,clean_qq"]) for j in range(len(es))
                              if rng.random() < 0.4}}}


def sub_record(rid, a, pre, out, exc="none"):
    """the record of a sort whose input is a sub-list / re-ordering of the case's list: `pre` = the elements (by their
    position in the case's list) in the order the sort received them, `out` = the order it left them in"""
    elems = [dict(a["elems"][p - 1], pos=j + 1) for j, p in enumerate(pre) if 1 <= p <= len(a["elems"])]
    where = {p: j + 1 for j, p in enumerate(pre)}
    return {"id": rid, "elems": elems, "keys": a["keys"], "legal": a["legal"],
            "out": [where.get(p, 0) for p in out] if len(elems) == len(pre) else [], "exc": exc}


def check(ctx, cases):
    obs = ctx.impl_map("c17", cases)
    recs, by_id = [], {}
    for c in cases:
        o = obs.get(c["id"])
        if o is None:
            continue
        by_id[c["id"]] = c
        a = c["abs"]
        route = c["args"].get("route", "method")
        if o.get("exc", "none") == "none" and route == "unpack":
            recs.append(sub_record(c["id"], a, o.get("pre") or [], o.get("out") or []))
        elif o.get("exc", "none") == "none" and route == "grouped":
            gs = o.get("groups") or [{"pre": list(range(1, len(a["elems"]) + 1)), "out": []}]
            for k, g in enumerate(gs):
                rid = "%s~%d" % (c["id"], k)
                by_id[rid] = c
                obs[rid] = o
                recs.append(sub_record(rid, a, g["pre"], g["out"]))
        else:
            recs.append({"id": c["id"], "elems": a["elems"], "keys": a["keys"], "legal": a["legal"],
                         "out": o.get("out") or [], "exc": o.get("exc", "none")})
        if len(a["elems"]) >= 2:
            ctx.nontrivial.add((c["args"]["container"], c["args"]["key"].strip().lower(),
                                tuple(core.json.dumps(e, sort_keys=True) for e in a["elems"])))
    consts = {"MaxLen": 1, "MaxKeys": 1, "TwpShapes": {"X"}, "RgeShapes": {"X"}, "SecShapes": {"X"},
              "Fault": "none", "EmitCases": False}
    fails, drifts = ctx.validate("SortTrace", recs, consts)
    for cid, clause, *_ in fails:
        ctx.violation(by_id[cid], clause, {"observed": obs[cid]})
    failed = {f[0] for f in fails}
    for cid in drifts:
        if cid not in failed:
            ctx.add_drift(1, {"args": by_id[cid]["args"], "observed": obs[cid]})
    for c in cases[:3]:
        ctx.sample({"container": c["args"]["container"], "key": c["args"]["key"],
                    "trs": [__import__("harness.impl", fromlist=["x"])._trs_from_shape(e) for e in c["args"]["elems"]],
                    "observed_order": obs.get(c["id"], {}).get("out")})
    return fails


def rand_comp(rng, dirs, hi):
    r = rng.random()
    if r < 0.15:
        return dict(ERR)
    if r < 0.25:
        return dict(UNDEF)
    if r < 0.32 and dirs != "-":
        # township / range 0 (a defined number): written with the first direction of its axis only, since '0n' and '0s'
        # (the same line on the ground) tie in the code and the statement does not order them
        return {"k": "num", "n": 0, "d": dirs[0]}
    return {"k": "num", "n": rng.randint(1, hi), "d": rng.choice(dirs)}


def run(ctx):
    thorough = ctx.tier == "thorough"
    invs = ["IsPermutation", "EqualsDenotation", "ArithMatchesOrder", "ErrorsLast"]
    cfg_a = {"MaxLen": 2, "MaxKeys": 2, "TwpShapes": {"1n", "2s", "X", "U"}, "RgeShapes": {"1w", "2e", "X"},
             "SecShapes": {"1", "2", "X"}}
    cfg_b = {"MaxLen": 3, "MaxKeys": 2 if thorough else 1, "TwpShapes": {"1n", "2s", "X"}, "RgeShapes": {"1w", "X"},
             "SecShapes": {"1", "X"}}
    ctx.tlc("SortSpec", dict(cfg_a, Fault="none", EmitCases=False), invariants=invs)
    ctx.tlc("SortSpec", dict(cfg_b, Fault="none", EmitCases=False), invariants=invs, timeout=2400)
    # -coverage is expensive: the vacuity guard runs on a small configuration
    ctx.tlc("SortSpec", dict(cfg_b, MaxLen=2, MaxKeys=1, Fault="none", EmitCases=False), invariants=invs,
            coverage=True, count=False)
    ctx.require_actions(["ChooseList", "DoPass"])
    ctx.tlc("SortSpec", dict(cfg_b, MaxKeys=1, TwpShapes={"1n", "2n", "X"}, Fault="max_of_fully_valid", EmitCases=False),
            invariants=invs, expect_violation="max_of_fully_valid", count=False)
    # spec -> code: all terminal states of a small configuration
    cfg_e = {"MaxLen": 3 if thorough else 2, "MaxKeys": 1, "TwpShapes": {"1n", "2s", "X"}, "RgeShapes": {"1w", "X"},
             "SecShapes": {"1", "X"}}
    res = ctx.tlc("SortSpec", dict(cfg_e, Fault="none", EmitCases=True), invariants=["EmitCase"], workers=1,
                  count=False, timeout=2400)
    cases = []
    for i, c in enumerate(res.cases):
        if thorough and len(c["elems"]) == 3 and ctx.rng.random() > 0.25:
            continue
        cases.append(mk_case("e%d" % i, c["elems"], c["keys"], ctx.rng))
    if not cases:
        raise core.MachineryFailure("SortSpec emitted no cases")
    ctx.exhaustive = not thorough
    # illegal keys
    for i, k in enumerate(ILLEGAL):
        for cont in CONTAINERS:
            e = [{"twp": {"k": "num", "n": 2, "d": "n"}, "rge": {"k": "num", "n": 1, "d": "w"},
                  "sec": {"k": "num", "n": 1, "d": "-"}, "uid": 1},
                 {"twp": {"k": "num", "n": 1, "d": "n"}, "rge": {"k": "num", "n": 1, "d": "w"},
                  "sec": {"k": "num", "n": 1, "d": "-"}, "uid": 2}]
            # (a key is rejected whatever the list holds: also an empty list and a single element)
            for size in (2, 1, 0):
                cases.append(mk_case("x%d%s%d" % (i, cont[:2], size), e[:size], [], ctx.rng, container=cont, legal=False,
                                     keytext=k))
    check(ctx, cases)
    # code -> spec beyond the bound: longer lists, real numbers, up to 3 keys
    legal_keys = [{"var": v, "method": m, "rev": r} for v, ms in
                  (("i", ["num"]), ("t", ["num", "ns", "sn"]), ("r", ["num", "ew", "we"]), ("s", ["num"]))
                  for m in ms for r in (False, True)]
    rnd = []
    for n in range(12000 if thorough else 2500):
        L = ctx.rng.randint(2, 8)
        hi = ctx.rng.choice([3, 9, 160])
        elems = []
        uids = list(range(1, L + 1))
        ctx.rng.shuffle(uids)
        for j in range(L):
            elems.append({"twp": rand_comp(ctx.rng, "ns", hi), "rge": rand_comp(ctx.rng, "ew", hi),
                          "sec": dict(rand_comp(ctx.rng, "-", min(hi, 36)), d="-"), "uid": uids[j]})
        keys = [ctx.rng.choice(legal_keys) for _ in range(ctx.rng.randint(1, 3))]
        case = mk_case("r%d" % n, elems, keys, ctx.rng)
        # the other ways to the same sort: the keys as a list, sorting inside groups and after unpacking them
        r = ctx.rng.random()
        if r < 0.15:
            case["args"].update(route="keylist", keytuple=ctx.rng.random() < 0.5)
        elif r < 0.3:
            case["args"].update(route="unpack", group_attr=ctx.rng.choice(["twprge", "sec", "twp"]))
        elif r < 0.45:
            case["args"].update(route="grouped", group_attr=ctx.rng.choice(["twprge", "sec", "twp"]),
                                grouped_how=ctx.rng.choice(["group_by", "sort_grouped", "into_method", "into_function"]))
        rnd.append(case)
    check(ctx, rnd)
    ctx.rule = ("(list, key string) cases = terminal states of spec/SortSpec.tla (lists up to %d over valid/error/undefined "
                "components, 1 key incl. .rev) + 15 illegal keys x 3 containers x lists of 0, 1 and 2 elements + seeded random lists of 2..8 elements "
                "(numbers up to 160, ~25%% invalid components, shuffled creation order) with 1..3 keys; built as real "
                "Tract/TRS objects in TractList/TRSList/PLSSDesc, 45%% of them through the other routes to the same sort (the keys as a "
                "list / tuple; group_by(sort_key=), sort_grouped() and grouping a second batch into= the sorted groups of the first (method and module-level function): one record per group; unpack_group(sort_key=)); non-trivial = distinct (container, key, list) with >= 2 "
                "elements" % cfg_e["MaxLen"])
    ctx.assumptions += ["township / range number 0 is generated with one direction per axis only ('0n', '0e'): north 0 and south 0 tie in the code",
                        "keys such as 't.foo' (partially interpreted with a warning) are not claimed (R3)"]


def replay(ctx, payload):
    case = payload["case"]
    fails = check(ctx, [case])
    if fails:
        print("VIOLATION property=C17 replay=(replayed) clause=%s" % fails[0][1])
        return 1
    print("replayed case passes on the current tree: %s" % case["args"]["key"])
    return 0
