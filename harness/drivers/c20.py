"""C20  Optional parse modes are conservative where they are not needed.

spec/PlssDoc.tla       document shapes (same grammar as C01)
spec/PlssDocTrace.tla  relations between paired parses ("same", "fallback", "secwithin")
"""
from .. import core, plssdoc
from .. import render as R

CONSTS = {"MaxGroups": 1, "MaxSecs": 1, "TRIds": {1}, "Fault": "none", "EmitCases": False}
LEAD = ["That part of the NE/4", "All that portion of the S/2", "A strip of land 100 feet wide across the W/2",
        "That part of Lots 1 and 2", "SE/4", "That part of the highway RoW"]
# (texts of exactly 4 characters sit on the documented reporting threshold and must still be kept)
TRAIL = ["lying within RoW", "lying north of the river", "described in Book 52, Page 100",
         "lying south and east of the county road", "NE/4", "RoW1", "Lot 1"]


def cases_for_doc(cid, abstract, rng):
    doc = plssdoc.concretise(abstract, rng, vary_tr=True)
    lay = doc["layout"]
    out = []
    text = plssdoc.render_doc(doc, rng)
    out.append({"id": cid + "s", "kind": "c20", "abs": {"kind": "same", "what": "segment"},
                "args": {"mode": "same", "text": text, "cfg_a": None, "cfg_b": "segment"}})
    if lay == "TRS_desc":
        # a block that refers back to its own section and Twp/Rge ('... in Section 14 of T154N-R97W'): the parser
        # ignores such a reference, and it must not start a new segment either
        g = rng.choice(doc["groups"])
        sg = rng.choice(g["secs"])
        ref = rng.choice([" lying in Section %d of %s along the river", ", less the tract conveyed in Section %d, %s by deed of record"]) % (
            sg["nums"][0], R.tr_canon(g["tr"]))
        doc2 = dict(doc, blocks=dict(doc["blocks"]))
        doc2["blocks"][sg["block"]] = doc["blocks"][sg["block"]] + ref
        out.append({"id": cid + "b", "kind": "c20", "abs": {"kind": "same", "what": "segment_backref"},
                    "args": {"mode": "same", "text": plssdoc.render_doc(doc2, rng), "cfg_a": None, "cfg_b": "segment"}})
    if lay in ("TRS_desc", "S_desc_TR"):
        for what, cfg in (("all_colons_cautious", "sec_colon_cautious"), ("all_colons_required", "sec_colon_required")):
            out.append({"id": cid + what[11], "kind": "c20", "abs": {"kind": "same", "what": what},
                        "args": {"mode": "same", "text": text, "cfg_a": None, "cfg_b": cfg}})
        bare = plssdoc.render_doc(doc, rng, colons=False)
        out.append({"id": cid + "n", "kind": "c20",
                    "abs": {"kind": "same", "what": "no_colons_cautious", "need_warning": True},
                    "args": {"mode": "same", "text": bare, "cfg_a": None, "cfg_b": "sec_colon_cautious",
                             "warning": "pulled_sec_without_colon"}})
        out.append({"id": cid + "f", "kind": "c20", "abs": {"kind": "fallback", "what": "no_colons_required"},
                    "args": {"mode": "fallback", "text": bare, "cfg": "sec_colon_required"}})
        # the two colon settings through different channels: a keyword for one leaves the configured other in force
        # (required controls whenever it is on; cautious stays on when only `required` is switched off by keyword)
        out.append({"id": cid + "g", "kind": "c20", "abs": {"kind": "fallback", "what": "no_colons_required_cfg_cautious_kw"},
                    "args": {"mode": "fallback", "text": bare, "cfg": "sec_colon_required",
                             "kw": {"sec_colon_cautious": rng.choice([True, False])}}})
        out.append({"id": cid + "h", "kind": "c20",
                    "abs": {"kind": "same", "what": "no_colons_cautious_cfg_required_off_kw", "need_warning": True},
                    "args": {"mode": "same", "text": bare, "cfg_a": None, "cfg_b": "sec_colon_cautious",
                             "kw_b": {"sec_colon_required": False}, "warning": "pulled_sec_without_colon"}})
    return out


def secwithin_cases(cid, kind, placement, rng):
    a = rng.randint(1, 30)
    if kind == "single":
        nums, conns = [a], []
    elif kind == "and":
        nums, conns = [a, rng.randint(1, 36)], ["AND"]
    else:
        nums, conns = [a, a + rng.randint(1, 3)], ["THRU"]
    tr = rng.choice([1, 2, 3])
    lead, trail = rng.choice(LEAD), rng.choice(TRAIL)
    sec = R.render_sec(nums, conns, False, rng)
    trtxt = R.render_tr(tr, rng)
    glue = rng.choice([" of ", " in "])
    if placement == "before_colon":
        text = "%s: %s%s%s, %s" % (trtxt, lead, glue, sec, trail)
    elif placement == "before_nl":
        text = "%s\n%s%s%s %s" % (trtxt, lead, glue, sec, trail)
    elif placement == "inside":
        text = "%s%s%s, %s, %s" % (lead, glue, sec, trtxt, trail)
    else:
        text = "%s%s%s %s, %s" % (lead, glue, sec, trail, trtxt)
    return {"id": cid, "kind": "c20",
            "abs": {"kind": "secwithin", "nums": nums, "conns": conns, "tr": tr},
            # (the documented combination with `segment` gives the same: one Twp/Rge, one chunk)
            "args": {"mode": "secwithin", "text": text, "tr": tr, "expected_desc": "%s %s" % (lead, trail),
                     "cfg": rng.choice(["sec_within", "sec_within", "sec_within,segment", "segment,sec_within,parse_qq"])}}


def vary_cfg_form(cases, rng):
    """a quarter of the cases hand the varied configuration over as a Config object that spells out every mode switch"""
    for c in cases:
        if rng.random() < 0.25:
            c["args"]["cfg_form"] = rng.choice(["kwargs_full", "dict_full"])
    return cases


def check(ctx, cases):
    vary_cfg_form([c for c in cases if "cfg_form" not in c["args"] and not c["args"].get("_form_fixed")], ctx.rng)
    for c in cases:
        c["args"]["_form_fixed"] = True
    obs = ctx.impl_map("c20", cases)
    recs, by_id = [], {}
    for c in cases:
        o = obs.get(c["id"])
        if o is None:
            continue
        by_id[c["id"]] = c
        a = c["abs"]
        r = {"id": c["id"], "kind": a["kind"]}
        if a["kind"] == "same":
            r.update(what=a["what"], a=o.get("a", []), b=o.get("b", []), a_exc=o.get("a_exc", "none"),
                     b_exc=o.get("b_exc", "none"), need_warning=bool(a.get("need_warning")),
                     has_warning=bool(o.get("has_warning")))
        elif a["kind"] == "fallback":
            r.update(what=a["what"], exc=o.get("exc", "none"), n=o.get("n", 0), whole=bool(o.get("whole")))
        else:
            r.update(nums=a["nums"], conns=a["conns"], tr=a["tr"], exc=o.get("exc", "none"),
                     tracts=o.get("tracts", []), warned=o.get("warned", []))
        recs.append(r)
        ctx.nontrivial.add((a["kind"], a.get("what", ""), c["args"]["text"]))
    fails, _ = ctx.validate("PlssDocTrace", recs, CONSTS, invariants=("Verdict",))
    for cid, clause, *_ in fails:
        c = by_id[cid]
        ctx.violation(c, "%s:%s" % (c["abs"].get("what", c["abs"]["kind"]), clause), {"observed": obs[cid]})
    for c in cases[:4]:
        ctx.sample({"relation": c["abs"].get("what", c["abs"]["kind"]), "args": {k: v for k, v in c["args"].items() if k != "doc"},
                    "observed": {k: v for k, v in obs.get(c["id"], {}).items() if k.startswith("raw")}})
    return fails


def run(ctx):
    thorough = ctx.tier == "thorough"
    base = {"MaxGroups": 3 if thorough else 2, "MaxSecs": 2, "TRIds": {1, 2}}
    invs = ["OneTractPerSection", "ReadingOrder", "Bounded"]
    ctx.tlc("PlssDoc", dict(base, Fault="none", EmitCases=False), invariants=invs)
    res = ctx.tlc("PlssDoc", dict(base, Fault="none", EmitCases=True), invariants=["EmitCase"], workers=1, count=False)
    cases = []
    keep = 0.05 if thorough else 0.5
    for i, a in enumerate(res.cases):
        if ctx.rng.random() > keep:
            continue
        cases += cases_for_doc("d%d" % i, a, ctx.rng)
    if not thorough:
        # three Twp/Rge groups with one section group each (the thorough tier enumerates three groups anyway): segmenting
        # must cut the third block where the second ended
        res3 = ctx.tlc("PlssDoc", dict(base, MaxGroups=3, MaxSecs=1, Fault="none", EmitCases=True), invariants=["EmitCase"],
                       workers=1, count=False)
        for i, a in enumerate(res3.cases):
            if len(a["groups"]) == 3 and ctx.rng.random() < 0.6:
                cases += cases_for_doc("t%d" % i, a, ctx.rng)
    k = 0
    for rep in range(60 if thorough else 12):
        for kind in ("single", "and", "thru"):
            for placement in ("before_colon", "before_nl", "inside", "after"):
                cases.append(secwithin_cases("w%d" % k, kind, placement, ctx.rng))
                k += 1
    if not cases:
        raise core.MachineryFailure("no C20 cases")
    check(ctx, cases)
    ctx.rule = ("paired parses of documents whose shapes are enumerated by spec/PlssDoc.tla (%d%% seeded sample of all shapes "
                "within %d groups x %d section groups; quick tier: + 60%% of the three-group shapes with one section group each): default vs segment (Twp/Rge-Sec-desc documents also with a block that "
                "refers back to its own section and Twp/Rge); all-colon text vs both colon modes; colon-less "
                "text vs cautious (same tracts + warning) and required (one whole-text tract); plus sec_within texts "
                "(3 list kinds x 4 Twp/Rge placements x random leading/trailing text); non-trivial = distinct "
                "(relation, text)" % (int(keep * 100), base["MaxGroups"], base["MaxSecs"]))
    ctx.assumptions += ["the colon clauses are claimed for the layouts whose documented rendering has a colon "
                        "(TRS_desc, S_desc_TR) (R3)", "rendering vocabularies (harness/render.py, plssdoc.py)"]


def replay(ctx, payload):
    case = payload["case"]
    fails = check(ctx, [case])
    if fails:
        print("VIOLATION property=C20 replay=(replayed) clause=%s" % fails[0][1])
        return 1
    print("replayed case passes on the current tree: %r" % case["args"]["text"])
    return 0
