"""C15  Results depend only on text and settings, not on what ran before.

spec/GlobalState.tla       global actions (MasterConfig, TRS cache, caller mutations) + probes with a ghost purity function
spec/GlobalStateTrace.tla  every probe outcome, across all histories and fresh interpreters, is a function of
                           Pure(probe, MasterConfig in force)
"""
import json
import os
import subprocess
import sys

from .. import core

PROBES = ["plss_nodir", "plss_full", "tract_build", "trs_attrs", "trs_dict", "find_twprge", "plss_qq", "trslist",
          "plss_ocrlike", "tract_bareqq", "held_parse", "cfg_parse", "held_tract", "tract_deep"]
MCS = [("n", "w"), ("n", "e"), ("s", "w"), ("s", "e")]


def op(name, a="-", b="-"):
    return {"name": name, "a": a, "b": b}


def fresh_reference():
    """Each (probe, MasterConfig) once in a brand-new interpreter."""
    code = ("import sys, json; sys.dont_write_bytecode = True; sys.path.insert(0, %r); sys.path.insert(0, %r)\n"
            "from harness import impl\n"
            "out = []\n"
            "for i, (p, n, e) in enumerate(json.loads(sys.argv[1])):\n"
            "    ops = ([{'name': 'set_mc', 'a': n, 'b': e}] if (n, e) != ('n', 'w') else []) + [{'name': 'probe', 'a': p, 'b': '-'}]\n"
            "    out.append(impl.c15({'id': 'ref%%d' %% i, 'args': {'ops': ops}})['events'])\n"
            "print(json.dumps(out))\n") % (core.repo_root(), core.VERIF)
    events = []
    procs = []
    for p in PROBES:               # one interpreter per probe: nothing else has run in it before
        combos = [(p, n, e) for n, e in MCS]
        for c in combos:
            procs.append(subprocess.Popen(["/venv/bin/python", "-c", code, json.dumps([c])], stdout=subprocess.PIPE,
                                          stderr=subprocess.PIPE, text=True,
                                          env=dict(os.environ, PYTHONDONTWRITEBYTECODE="1", PYTHONHASHSEED="0", PYTRS_VERIF="1")))
    for i, pr in enumerate(procs):
        out, err = pr.communicate(timeout=300)
        if pr.returncode != 0:
            raise core.MachineryFailure("fresh interpreter failed: %s" % err[-500:])
        for evs in json.loads(out):
            for ev in evs:
                ev["tid"] = "ref%d" % i
                events.append(ev)
    return events


def check(ctx, cases, refs):
    obs = ctx.impl_map("c15", cases, chunksize=20)
    events = [{k: v for k, v in ev.items() if k != "exc_msg"} for ev in refs]
    by_id = {}
    for c in cases:
        o = obs.get(c["id"])
        if o is None:
            continue
        by_id[c["id"]] = c
        events += [{k: v for k, v in ev.items() if k != "exc_msg"} for ev in o["events"]]
        ctx.nontrivial.add(json.dumps(c["args"]["ops"], sort_keys=True))
    consts = {"MaxOps": 1, "Fault": "none", "EmitCases": False}
    fails, _ = ctx.validate("GlobalStateTrace", events, consts, invariants=(), parallel=1, heap="6g")
    seen = set()
    for tid, clause, *rest in fails:
        if tid in seen:
            continue
        seen.add(tid)
        c = by_id.get(tid, {"id": tid, "kind": "c15", "args": {"ops": []}, "abs": {"reference": True}})
        ctx.violation(c, clause, {"at_call": rest[0] if rest else None})
    for c in cases[:3]:
        ctx.sample({"history": [(o["name"], o["a"], o["b"]) for o in c["args"]["ops"]]})
    return fails


def run(ctx):
    thorough = ctx.tier == "thorough"
    invs = ["CacheSound", "ProbeIsPure", "RestoreRestores"]
    maxops = 9 if thorough else 4
    ctx.tlc("GlobalState", {"MaxOps": maxops + 1, "Fault": "none", "EmitCases": False}, invariants=invs, view="LastOnly")
    ctx.tlc("GlobalState", {"MaxOps": 2, "Fault": "none", "EmitCases": False}, invariants=invs, coverage=True, count=False)
    ctx.require_actions(["SetMC", "RestoreMC", "ClearCache", "SetUseCache", "ParseOther", "MakeTRS", "Mutate", "Hold", "UseCfg", "AskLayout", "DryRun", "BadConfig", "Probe"])
    for fault in ("share_dict", "freeze_default", "held_keeps_defaults", "cfg_obj_written", "layout_remembered", "dry_run_leaves_flags"):
        ctx.tlc("GlobalState", {"MaxOps": 3, "Fault": fault, "EmitCases": False}, invariants=invs, expect_violation=fault,
                count=False)
    # (histories of 3 actions ending in a probe: 13 690; of 4 actions: 506 530 - too many to replay)
    res = ctx.tlc("GlobalState", {"MaxOps": 3, "Fault": "none", "EmitCases": True}, invariants=["EmitCase"], workers=1,
                  count=False)
    cases = []
    keep = 1.0
    for i, c in enumerate(res.cases):
        if ctx.rng.random() > keep:
            continue
        cases.append({"id": "b%d" % i, "kind": "c15", "abs": {}, "args": {"ops": c["ops"]}})
    if not cases:
        raise core.MachineryFailure("GlobalState emitted no histories")
    # longer behaviours straight from the specification (TLC simulation mode)
    sim = ctx.tlc("GlobalState", {"MaxOps": 9, "Fault": "none", "EmitCases": True}, invariants=["EmitCase"], workers=1,
                  count=False, simulate="num=%d" % (2000 if thorough else 200), depth=10)
    seen_sim = set()
    for c in sim.cases:
        key = json.dumps(c, sort_keys=True)
        if key in seen_sim:
            continue
        seen_sim.add(key)
        cases.append({"id": "m%d" % len(seen_sim), "kind": "c15", "abs": {}, "args": {"ops": c["ops"]}})
    ctx.notes["simulated_behaviours"] = len(seen_sim)
    # longer random histories ending in several probes
    names = ["set_mc", "restore_mc", "clear_cache", "use_cache", "parse_other", "make_trs", "mutate", "probe", "hold", "use_cfg", "ask_layout", "dry_run", "bad_config", "bad_config"]
    vias = ["trs_to_dict_str", "trs_to_dict_obj", "tract_to_dict", "tracts_to_dict", "tracts_to_list", "flag_lists"]
    for n in range(3000 if thorough else 400):
        ops = []
        for _ in range(ctx.rng.randint(4, 12)):
            nm = ctx.rng.choice(names)
            if nm == "set_mc":
                ops.append(op(nm, *ctx.rng.choice(MCS)))
            elif nm == "use_cache":
                ops.append(op(nm, ctx.rng.choice(["on", "off"])))
            elif nm == "parse_other":
                ops.append(op(nm, ctx.rng.choice(["o1", "o2", "o3", "o4", "o5"])))
            elif nm == "make_trs":
                ops.append(op(nm, ctx.rng.choice(["k1", "k2", "kerr"])))
            elif nm == "mutate":
                ops.append(op(nm, ctx.rng.choice(["k1", "k2"]), ctx.rng.choice(vias)))
            elif nm == "probe":
                ops.append(op(nm, ctx.rng.choice(PROBES)))
            elif nm == "use_cfg":
                ops.append(op(nm, "s", "e"))
            else:
                ops.append(op(nm))
        for p in ctx.rng.sample(PROBES, 3):
            ops.append(op("probe", p))
        cases.append({"id": "r%d" % n, "kind": "c15", "abs": {}, "args": {"ops": ops}})
    refs = fresh_reference()
    check(ctx, cases, refs)
    ctx.notes["fresh_interpreter_references"] = len(PROBES) * len(MCS)
    ctx.rule = ("histories = %d%% seeded sample of all behaviours of spec/GlobalState.tla with 3 actions (model checked up to %d) ending in a probe "
                "(MasterConfig set / restored, cache cleared / disabled / pre-warmed, other descriptions parsed, returned dicts "
                "and lists mutated through 6 conversion paths, a description created with wait_to_parse and parsed later, previews with commit=False on kept objects) + random histories of 7..15 actions; reference = each of 14 probes "
                "x 4 MasterConfig values in its own fresh interpreter; non-trivial = distinct history" % (int(keep * 100), maxops))
    ctx.assumptions += ["probe outcome = full snapshot of the parsed objects / returned values (28-bit hash)",
                        "worker processes reset MasterConfig and the TRS cache at the beginning and end of every history"]


def replay(ctx, payload):
    case = payload["case"]
    fails = check(ctx, [case], fresh_reference())
    if fails:
        print("VIOLATION property=C15 replay=(replayed) clause=%s" % fails[0][1])
        return 1
    print("replayed history passes on the current tree")
    return 0
