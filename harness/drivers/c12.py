"""C12  The Twp/Rge/Sec standard form is canonical, round-trips, and is strict.

spec/TrsStd.tla       recogniser / Canon / Decompose / encodings / edit model + state machine
spec/TrsStdTrace.tla  evaluates C12 on every observation
"""
from .. import core

BUILD_CHANNELS = ("TRS.from_twprgesec", "TRS.set_twprgesec", "Tract.from_twprgesec", "Tract.set_twprgesec")
STR_CHANNELS = ("TRS", "Tract", "trs_to_dict", "setter")
JUNK_TR = ["abc", "15x", "1o4", "north 5", "--"]
JUNK_SEC = ["ab", "1x", "abc", "1.5"]
NO_ATTRS = {"twp": {"k": "err", "n": 0, "d": "-", "s": []}, "rge": {"k": "err", "n": 0, "d": "-", "s": []},
            "sec": {"k": "err", "n": 0, "d": "-", "s": []}, "twprge": [],
            "rep_err": [True, True, True, True], "rep_undef": [False, False, False, False]}


def concrete_tr(enc, dirs, rng):
    e = enc["e"]
    if e == "int":
        return enc["n"]
    if e == "digits":
        return str(enc["n"])
    if e == "lower":
        return "%d%s" % (enc["n"], dirs[enc["d"] - 1])
    if e == "upper":
        return "%d%s" % (enc["n"], dirs[enc["d"] - 1].upper())
    return {"none": None, "empty": "", "junk": rng.choice(JUNK_TR), "errph": "XXXz", "undefph": "___z"}[e]


def concrete_sec(enc, rng):
    e = enc["e"]
    if e == "int":
        return enc["n"]
    if e == "digits":
        return str(enc["n"])
    if e == "pad":
        return "%02d" % enc["n"]
    return {"none": None, "empty": "", "junk": rng.choice(JUNK_SEC), "errph": "XX", "undefph": "__"}[e]


def build_case(cid, b, rng, channel=None):
    args = {"mode": "build", "channel": channel or rng.choice(BUILD_CHANNELS),
            "twp": concrete_tr(b["twp"], "ns", rng), "rge": concrete_tr(b["rge"], "ew", rng),
            "sec": concrete_sec(b["sec"], rng),
            "dns": "s" if b["dns"] == "alt" else None, "dew": "e" if b["dew"] == "alt" else None,
            "ocr": bool(b.get("ocr"))}
    # the alternative defaults either by keyword / config of the call or (a quarter of the cases) as the program-wide
    # MasterConfig defaults, the call saying nothing
    args["via_mc"] = bool((args["dns"] or args["dew"]) and rng.random() < 0.25)
    return {"id": cid, "kind": "c12", "abs": {"kind": "build", "build": b}, "args": args}


def str_case(cid, chars, rng, channel=None, warm=None):
    return {"id": cid, "kind": "c12", "abs": {"kind": "str", "input": list(chars)},
            "args": {"mode": "str", "channel": channel or rng.choice(STR_CHANNELS), "s": "".join(chars), "warm": warm or []}}


DUMMY_BUILD = {"twp": {"e": "none"}, "rge": {"e": "none"}, "sec": {"e": "none"}, "dns": "unset", "dew": "unset", "ocr": False}


def to_record(c, o):
    r = {"id": c["id"], "kind": c["abs"]["kind"], "build": c["abs"].get("build", DUMMY_BUILD),
         "input": c["abs"].get("input", []), "exc": o.get("exc", "none")}
    out = o.get("out")
    r["out"] = list(out) if isinstance(out, str) else ["?"]
    rw = o.get("rewrap")
    r["rewrap"] = list(rw) if isinstance(rw, str) else ["?"]
    r["eq"] = bool(o.get("eq", False))
    r["attrs"] = o.get("attrs") or NO_ATTRS
    return r


def check(ctx, cases):
    obs = ctx.impl_map("c12", cases)
    recs, by_id = [], {}
    for c in cases:
        o = obs.get(c["id"])
        if o is None:
            continue
        by_id[c["id"]] = c
        recs.append(to_record(c, o))
        ctx.nontrivial.add((c["args"]["channel"], repr(c["args"].get("s")), repr(c["args"].get("twp")),
                            repr(c["args"].get("rge")), repr(c["args"].get("sec")), c["args"].get("dns"),
                            c["args"].get("dew")))
    consts = {"TwpNums": {0}, "SecNums": {0}, "EditAlphabet": {"0"}, "Fault": "none", "EmitCases": False}
    fails, drifts = ctx.validate("TrsStdTrace", recs, consts)
    for cid, clause, *_ in fails:
        ctx.violation(by_id[cid], clause, {"observed": {k: v for k, v in obs[cid].items() if k != "attrs"}})
    failed = {f[0] for f in fails}
    for cid in drifts:
        if cid not in failed:
            ctx.add_drift(1, {"input": by_id[cid]["args"], "out": obs[cid].get("out")})
    for c in cases[:3]:
        ctx.sample({"input": c["args"], "out": obs.get(c["id"], {}).get("out")})
    return fails


ALPHABET = ["0", "5", "n", "N", "w", "e", "X", "z", "_", " ", "\n", "a", "-"]


def run(ctx):
    thorough = ctx.tier == "thorough"
    twpn = {0, 7, 154, 999, 1000} if thorough else {0, 154, 1000}
    secn = {0, 7, 14, 99, 100} if thorough else {0, 14, 100}
    alpha = set(ALPHABET) if thorough else {"0", "n", "N", "X", "_", " ", "\n", "a"}
    base = {"TwpNums": twpn, "SecNums": secn, "EditAlphabet": alpha}
    invs = ["BuiltIsCanonical", "WrapIdempotent", "EditedNeverValidLooking", "KeepsOtherComponents"]
    ctx.tlc("TrsStd", dict(base, Fault="none", EmitCases=False), invariants=invs, coverage=True)
    ctx.require_actions(["Build", "Wrap", "Edit", "Rewrap"])
    ctx.tlc("TrsStd", dict(base, TwpNums={7, 154}, SecNums={14}, Fault="unanchored", EmitCases=False),
            invariants=invs, expect_violation="unanchored", count=False)
    # spec -> code
    res = ctx.tlc("TrsStd", dict(base, Fault="none", EmitCases=True), invariants=["EmitBuild", "EmitEdit"],
                  workers=1, count=False)
    cases = []
    n_build = n_edit = 0
    for i, c in enumerate(res.cases):
        if c["kind"] == "build":
            n_build += 1
            if not thorough and ctx.rng.random() > 0.25:
                continue
            cases.append(build_case("b%d" % i, c["build"], ctx.rng))
        else:
            n_edit += 1
            cases.append(str_case("s%d" % i, c["input"], ctx.rng))
    if not n_build or not n_edit:
        raise core.MachineryFailure("TrsStd emitted %d build / %d edit cases" % (n_build, n_edit))
    # every channel on a fixed handful
    fixed = ["154n97w14", "154N97W14", "1n1e01", "999s999e99", "XXXz97w01", "154nXXXz14", "154n97wXX", "___z___z__",
             "___z97w__", "", "154n97w", "1154n97w14", "154n97w100", " 154n97w14", "154n97w14\n", "154n97w1",
             "154n 97w14", "154n97w14 ", "T154N-R97W", "154n97w014", "0n0w00", "154x97w14", "154n97n14"]
    k = 0
    for s in fixed:
        for ch in STR_CHANNELS:
            cases.append(str_case("f%d" % k, list(s), ctx.rng, channel=ch))
            k += 1
    # strings that differ only in letter case, one right after the other in the same process (what a string means must
    # not depend on which spelling the cache has seen first)
    for s in ["XXXz97w14", "154nXXXz14", "154n97wXX", "___z97w__", "___z___z__", "154n97w14", "XXXzXXXzXX"]:
        for v in {s.lower(), s.upper(), s.swapcase()} - {s}:
            for ch in STR_CHANNELS:
                cases.append(str_case("f%d" % k, list(v), ctx.rng, channel=ch, warm=[s]))
                cases.append(str_case("f%d" % (k + 1), list(s), ctx.rng, channel=ch, warm=[v]))
                k += 2
    ctx.exhaustive = thorough
    check(ctx, cases)
    # code -> spec beyond the bound: arbitrary numbers, double edits, random strings
    rnd = []
    for i in range(30000 if thorough else 4000):
        r = ctx.rng.random()
        if r < 0.45:
            b = {"twp": rand_tr(ctx.rng), "rge": rand_tr(ctx.rng), "sec": rand_sec(ctx.rng),
                 "dns": ctx.rng.choice(["unset", "alt"]), "dew": ctx.rng.choice(["unset", "alt"]),
                 "ocr": ctx.rng.random() < 0.4}
            rnd.append(build_case("rb%d" % i, b, ctx.rng))
        else:
            s = list("%d%s%d%s%02d" % (ctx.rng.randint(0, 999), ctx.rng.choice("nsNS"), ctx.rng.randint(0, 999),
                                       ctx.rng.choice("ewEW"), ctx.rng.randint(0, 99)))
            for _ in range(ctx.rng.choice((0, 1, 1, 2, 2, 3))):
                op = ctx.rng.choice(("ins", "del", "sub"))
                if op == "ins":
                    s.insert(ctx.rng.randint(0, len(s)), ctx.rng.choice(ALPHABET))
                elif op == "del" and s:
                    del s[ctx.rng.randrange(len(s))]
                elif s:
                    s[ctx.rng.randrange(len(s))] = ctx.rng.choice(ALPHABET)
            rnd.append(str_case("rs%d" % i, s, ctx.rng))
    check(ctx, rnd)
    ctx.rule = ("build cases = TLC-enumerated (twp encoding x rge encoding x sec encoding x defaults) over numbers %s/%s "
                "(%s), edit cases = every single insert/delete/substitute over the edit alphabet on every canonical base "
                "string (exhaustive), plus seeded random components 0..999 / 0..99 and strings with 0-3 random edits; 4 API "
                "channels each; non-trivial = distinct (channel, concrete arguments)" % (
                    sorted(twpn), sorted(secn), "all" if thorough else "35% sample in quick tier"))
    ctx.assumptions += ["upper-case direction letters are treated as standard form (R3)",
                        "a non-standard string must yield a TRS with an error placeholder (weaker reading); "
                        "'154n97w' -> '154n97wXX' is accepted",
                        "ASCII digits only (unicode digits are not generated)"]


def rand_tr(rng):
    e = rng.choice(["int", "digits", "lower", "upper", "lower", "none", "empty", "junk", "errph", "undefph"])
    enc = {"e": e}
    if e in ("int", "digits", "lower", "upper"):
        enc["n"] = rng.choice([rng.randint(0, 999), rng.randint(0, 999), rng.randint(1000, 1200)])
        enc["d"] = rng.choice([1, 2])
    return enc


def rand_sec(rng):
    e = rng.choice(["int", "digits", "pad", "int", "none", "empty", "junk", "errph", "undefph"])
    enc = {"e": e}
    if e in ("int", "digits", "pad"):
        enc["n"] = rng.choice([rng.randint(0, 99), rng.randint(0, 99), rng.randint(100, 130)])
    return enc


def replay(ctx, payload):
    case = payload["case"]
    fails = check(ctx, [case])
    if fails:
        print("VIOLATION property=C12 replay=(replayed) clause=%s" % fails[0][1])
        return 1
    print("replayed case passes on the current tree: %s" % case["args"])
    return 0
