"""C14  Re-parsing is idempotent and commit=False has no side effects.

spec/Lifecycle.tla       symbolic life-cycle of a Tract / PLSSDesc under API call sequences
spec/LifecycleTrace.tla  every recorded call of real objects explained by the model; equal symbolic state =>
                         equal snapshot (fresh objects included); equal effective settings => equal return value
"""
from .. import core

NA = "-"
TNONE = {"clean": NA, "depth": 0}
PNONE = {"cautious": NA, "pq": NA, "clean": NA, "ns": NA, "lay": NA, "ocr": NA}


def op(name, commit, kw, cfg):
    return {"name": name, "commit": commit, "kw": kw, "cfg": cfg}


def universe(kind):
    if kind == "tract":
        TA = [{"clean": c, "depth": d} for c in "TF" for d in (1, 2)]
        ops = [op("parse", c, {"clean": k, "depth": d}, TNONE) for c in (True, False) for k in (NA, "T", "F") for d in (0, 1, 2)]
        ops += [op("preprocess", c, {"clean": k, "depth": 0}, TNONE) for c in (True, False) for k in (NA, "T", "F")]
        ops += [op("config", True, TNONE, a) for a in TA]
        return TA, ops
    PA = [{"cautious": "F", "pq": "F", "clean": "F", "ns": "n"}, {"cautious": "T", "pq": "T", "clean": "F", "ns": "n"},
          {"cautious": "F", "pq": "T", "clean": "T", "ns": "s"}, {"cautious": "T", "pq": "F", "clean": "T", "ns": "s"}]
    kws = [PNONE, dict(PNONE, cautious="T"), dict(PNONE, cautious="F", pq="T"), dict(PNONE, pq="T", clean="T", ns="s"),
           dict(PNONE, pq="F"), dict(PNONE, clean="T"), dict(PNONE, ns="s", cautious="T"), dict(PNONE, lay="copy_all"),
           dict(PNONE, lay="TR_desc_S", pq="T"), dict(PNONE, lay="TRS_desc"), dict(PNONE, ocr="T"), dict(PNONE, ocr="T", pq="T")]
    ops = [op("parse", c, k, PNONE) for c in (True, False) for k in kws]
    ops += [op("parse_tracts", True, dict(PNONE, clean=x), dict(PNONE, lay=c)) for x in (NA, "T", "F") for c in (NA, "bh")]
    ops += [op("preprocess", c, dict(PNONE, ns=x), PNONE) for c in (True, False) for x in (NA, "s", "n")]
    ops += [op("config", True, PNONE, a) for a in PA]
    ops += [op("sort", True, PNONE, PNONE), op("filter", True, PNONE, PNONE), op("filter", False, PNONE, PNONE)]
    return PA, ops


def check(ctx, cases):
    obs = ctx.impl_map("c14", cases)
    # short histories (fresh objects) first, so that they define the reference snapshot of a symbolic state
    order = sorted((c for c in cases if c["id"] in obs), key=lambda c: (len(c["args"]["ops"]), c["id"]))
    events, by_id = [], {}
    for c in order:
        by_id[c["id"]] = c
        for ev in obs[c["id"]]["events"]:
            events.append({k: v for k, v in ev.items() if k != "exc_msg"})
        ctx.nontrivial.add((c["args"]["kind"], core.json.dumps(c["args"]["ops"], sort_keys=True)))
    consts = {"MaxOps": 1, "Kinds": {"tract"}, "Fault": "none", "EmitCases": False}
    # one JVM: the snapshot tables must be shared by all histories
    fails, _ = ctx.validate("LifecycleTrace", events, consts, invariants=(), parallel=1, heap="6g")
    seen = set()
    for tid, clause, *rest in fails:
        if tid in seen:
            continue
        seen.add(tid)
        c = by_id[tid]
        ctx.violation(c, clause, {"at_call": rest[0] if rest else None,
                                  "events": [{k: e[k] for k in ("seq", "snap", "ret", "exc")} for e in obs[tid]["events"]]})
    for c in order[-3:]:
        ctx.sample({"kind": c["args"]["kind"], "calls": [(o["name"], o["commit"], o["kw"], o["cfg"]) for o in c["args"]["ops"]]})
    ctx.records_validated += 0
    return fails


def run(ctx):
    thorough = ctx.tier == "thorough"
    invs = ["Idempotent", "Replaces", "FreshEquivalent", "KeywordOfParseTractsDoesNotStick"]
    props = ["CommitFalseChangesNothing"]
    base = {"MaxOps": 3 if thorough else 2, "Kinds": {"tract", "plss"}}
    ctx.tlc("Lifecycle", dict(base, Fault="none", EmitCases=False), invariants=invs, properties=props)
    ctx.tlc("Lifecycle", dict(base, MaxOps=1, Fault="none", EmitCases=False), invariants=invs, properties=props,
            coverage=True, count=False)
    ctx.require_actions(["Do"])
    ctx.tlc("Lifecycle", dict(base, MaxOps=2, Fault="commit_keeps_order", EmitCases=False), invariants=invs,
            expect_violation="commit_keeps_order", count=False)
    ctx.tlc("Lifecycle", dict(base, MaxOps=2, Fault="kw_written_to_tracts", EmitCases=False), invariants=invs,
            expect_violation="kw_written_to_tracts", count=False)
    ctx.tlc("Lifecycle", dict(base, MaxOps=1, Fault="preprocess_always_commits", EmitCases=False), invariants=invs,
            properties=props, expect_violation="preprocess_always_commits", count=False)
    # spec -> code: every behaviour of the bounded model
    res = ctx.tlc("Lifecycle", dict(base, MaxOps=2, Fault="none", EmitCases=True), invariants=["EmitCase"], workers=1,
                  count=False)
    cases = []
    for i, c in enumerate(res.cases):
        if c["kind"] == "plss" and not thorough and ctx.rng.random() > 0.5:
            continue
        cases.append({"id": "b%d" % i, "kind": "c14", "abs": {}, "args": {"kind": c["kind"], "ops": c["ops"]}})
    if not cases:
        raise core.MachineryFailure("Lifecycle emitted no behaviours")
    # fresh objects: every initial configuration alone and followed by one committed parse
    k = 0
    for kind in ("tract", "plss"):
        inits, ops = universe(kind)
        for a in inits:
            none = TNONE if kind == "tract" else PNONE
            cases.append({"id": "f%d" % k, "kind": "c14", "abs": {}, "args": {"kind": kind, "ops": [op("new", True, none, a)]}})
            k += 1
            for o in ops:
                if o["name"] == "parse" and o["commit"]:
                    cases.append({"id": "f%d" % k, "kind": "c14", "abs": {},
                                  "args": {"kind": kind, "ops": [op("new", True, none, a), o]}})
                    k += 1
    # longer behaviours straight from the specification (TLC simulation mode)
    sim = ctx.tlc("Lifecycle", dict(base, MaxOps=10, Fault="none", EmitCases=True), invariants=["EmitCase"], workers=1,
                  count=False, simulate="num=%d" % (1500 if thorough else 150), depth=12)
    seen_sim = set()
    for c in sim.cases:
        key = core.json.dumps(c, sort_keys=True)
        if key in seen_sim:
            continue
        seen_sim.add(key)
        cases.append({"id": "m%d" % len(seen_sim), "kind": "c14", "abs": {}, "args": {"kind": c["kind"], "ops": c["ops"]}})
    ctx.notes["simulated_behaviours"] = len(seen_sim)
    # code -> spec: longer random histories (re-parsing many times, interleaved with everything else)
    for n in range(4000 if thorough else 500):
        kind = ctx.rng.choice(["tract", "plss", "plss"])
        inits, ops = universe(kind)
        none = TNONE if kind == "tract" else PNONE
        seq = [op("new", True, none, ctx.rng.choice(inits))]
        for _ in range(ctx.rng.randint(3, 9)):
            o = ctx.rng.choice(ops)
            seq.append(o)
            if o["name"] in ("parse", "parse_tracts") and ctx.rng.random() < 0.5:
                seq.append(o)               # immediate re-parse with unchanged settings
        cases.append({"id": "r%d" % n, "kind": "c14", "abs": {}, "args": {"kind": kind, "ops": seq}})
    check(ctx, cases)
    ctx.exhaustive = True
    ctx.rule = ("call histories = every behaviour of spec/Lifecycle.tla with %d calls after construction (tract: all; PLSSDesc: "
                "%s) + every fresh object and fresh object + one committed parse + TLC-simulated behaviours of 10 calls + seeded random histories of 3..18 calls with "
                "immediate re-parses; each call of each history is one validated event; non-trivial = distinct history" % (
                    2, "all" if thorough else "50% sample"))
    ctx.assumptions += ["snapshot = every public attribute listed in DESIGN Appendix B, flag lists as multisets, hashed to 28 bits",
                        "one probe text per object kind (harness/impl.py C14_*_TEXT) with duplicate lots/aliquots, a descending "
                        "lot range, colon-less sections and a Twp without N/S",
                        "config assignments are complete over the varied settings, so attributes after assignment do not "
                        "depend on history"]


def replay(ctx, payload):
    case = payload["case"]
    kind = case["args"]["kind"]
    inits, ops = universe(kind)
    none = TNONE if kind == "tract" else PNONE
    # the failing history needs the fresh-object references to be judged against
    cases = []
    k = 0
    for a in inits:
        cases.append({"id": "f%d" % k, "kind": "c14", "abs": {}, "args": {"kind": kind, "ops": [op("new", True, none, a)]}})
        k += 1
        for o in ops:
            if o["name"] == "parse" and o["commit"]:
                cases.append({"id": "f%d" % k, "kind": "c14", "abs": {}, "args": {"kind": kind, "ops": [op("new", True, none, a), o]}})
                k += 1
    cases.append(case)
    fails = check(ctx, cases)
    if fails:
        print("VIOLATION property=C14 replay=(replayed) clause=%s" % fails[0][1])
        return 1
    print("replayed history passes on the current tree")
    return 0
