"""C08  Twp/Rge spellings are equivalent; missing directions come from defaults only.

spec/TwpRgeLex.tla       written forms (template class, numbers, present / absent directions), defaults and their source
spec/TwpRgeLexTrace.tla  preprocessed text, find_twprge, tracts and warnings against Meaning(form, defaults)
"""
from .. import core

CONSTS = {"MaxTR": 1, "Fault": "none", "EmitCases": False}
NSW = {"N": ["N", "North", "N.", "n"], "S": ["S", "South", "S.", "s"]}
EWW = {"E": ["E", "East", "E.", "e"], "W": ["W", "West", "W.", "w"]}
TEMPL = {
    "T-R": ["T{t}{ns}-R{r}{ew}", "T{t}{ns} - R{r}{ew}", "T-{t}-{ns}-R-{r}-{ew}"],
    "T R": ["T{t}{ns} R{r}{ew}", "T{t}{ns}, R{r}{ew}"],
    "Township,Range": ["Township {t} {NS}, Range {r} {EW}", "Township {t}{ns}, Range {r}{ew}", "Township {t} {NS} Range {r} {EW}"],
    "Twp.,Rge.": ["Twp. {t} {ns}, Rge. {r} {ew}", "Twp {t}{ns}, Rge {r}{ew}"],
    "T.,R.": ["T. {t} {ns}., R. {r} {ew}.", "T. {t}{ns}, R. {r}{ew}"],
    "bare": ["{t}{ns}-{r}{ew}", "{t}{ns} {r}{ew}"],
    "lower": ["t{t}{nsl}-r{r}{ewl}", "t{t}{nsl} r{r}{ewl}", "t{t}{nsl}r{r}{ewl}"],
}
LOOKALIKE = {"1": ["I", "l"], "0": ["O"], "5": ["S"]}


def ocr_num(n, rng):
    s = list(str(n))
    for i in range(len(s) - 1):            # never the last digit (it borders the direction letter)
        if s[i] in LOOKALIKE and rng.random() < 0.8:
            s[i] = rng.choice(LOOKALIKE[s[i]])
    return "".join(s)


def render_form(f, rng, ocr):
    tpl = rng.choice(TEMPL[f["tmpl"]])
    ns = f["ns"] if f["ns"] != "-" else ""
    ew = f["ew"] if f["ew"] != "-" else ""
    # look-alike characters only where the OCR pattern can read them (spec/TwpRgeLex.tla :: OcrReadable)
    ocr = ocr and f["ns"] != "-" and f["ew"] != "-" and f["tmpl"] != "bare" and f["r"] != 2
    t = ocr_num(f["t"], rng) if ocr else str(f["t"])
    r = ocr_num(f["r"], rng) if ocr else str(f["r"])
    if f["tmpl"] == "T.,R." and (not ns or not ew):
        tpl = "T. {t}{ns}, R. {r}{ew}"
    if tpl == "t{t}{nsl}r{r}{ewl}" and (not ns or not ew):
        tpl = "t{t}{nsl}-r{r}{ewl}"       # the unseparated form is documented with both directions only
    short_ns, short_ew = ns, ew
    long_ns = rng.choice(NSW[ns][:3]) if ns else ""
    long_ew = rng.choice(EWW[ew][:3]) if ew else ""
    out = tpl.format(t=t, r=r, ns=short_ns, ew=short_ew, NS=long_ns, EW=long_ew, nsl=ns.lower(), ewl=ew.lower())
    return " ".join(out.split()).replace(" ,", ",")


def mk_case(cid, c, rng, origin="tlc"):
    forms = c["forms"]
    blocks = ["NE/4", "W/2", "Lots 1 - 3"]
    parts, cparts, want_short, group_starts = [], [], [], []
    for i, (f, e) in enumerate(zip(forms, c["expect"])):
        tr = render_form(f, rng, c["ocr"])
        canon = "T%d%s-R%d%s" % (e["t"], e["ns"], e["r"], e["ew"])
        sec = 10 + i
        parts.append("%s Sec %d: %s" % (tr, sec, blocks[i % 3]))
        cparts.append("%s Sec %d: %s" % (canon, sec, blocks[i % 3]))
        want_short.append("%d%s%d%s" % (e["t"], e["ns"].lower(), e["r"], e["ew"].lower()) if (f["ns"] == "-" or f["ew"] == "-") else "")
        group_starts.append(i)
    sep = rng.choice([", ", "\n", "; "])
    return {"id": cid, "kind": "c08", "origin": origin,
            "abs": {"forms": forms, "dflt": c["dflt"], "src": c["src"], "ocr": c["ocr"]},
            "args": {"text": sep.join(parts), "canon_text": sep.join(cparts), "dflt": c["dflt"], "src": c["src"],
                     "cfg_form": rng.choice(["text", "text", "kwargs", "dict", "parent"]), "parent_kind": rng.choice(["tract", "plss"]),
                     "ocr": c["ocr"], "want_short": want_short, "group_starts": group_starts}}


def check(ctx, cases):
    obs = ctx.impl_map("c08", cases, chunksize=50)
    recs, by_id = [], {}
    for c in cases:
        o = obs.get(c["id"])
        if o is None:
            continue
        by_id[c["id"]] = c
        a = c["abs"]
        warned = o.get("warned") or [False] * len(a["forms"])
        # a form without missing direction has nothing to be warned about
        warned = [w or (f["ns"] != "-" and f["ew"] != "-") for w, f in zip(warned, a["forms"])]
        recs.append({"id": c["id"], "forms": a["forms"], "dflt": a["dflt"], "src": a["src"], "ocr": a["ocr"],
                     "pp": o.get("pp") or [], "found": o.get("found") or [], "tracts": o.get("tracts") or [],
                     "canon_pp": bool(o.get("canon_pp")), "warned": warned, "same_tracts": bool(o.get("same_tracts")),
                     "exc": o.get("exc", "none")})
        ctx.nontrivial.add((c["args"]["text"], a["src"]["ns"], a["src"]["ew"], a["dflt"]["ns"], a["dflt"]["ew"], a["ocr"]))
    fails, _ = ctx.validate("TwpRgeLexTrace", recs, CONSTS, invariants=("Verdict",))
    for cid, clause, *_ in fails:
        o = obs[cid]
        ctx.violation(by_id[cid], clause, {"observed": {k: o.get(k) for k in ("pp_text", "found", "tracts", "warned", "w_flags", "exc", "exc_msg")}})
    for c in cases[:3]:
        ctx.sample({"text": c["args"]["text"], "defaults": c["args"]["dflt"], "source": c["args"]["src"],
                    "preprocessed": obs.get(c["id"], {}).get("pp_text")})
    return fails


# --- whole descriptions: spec/Preprocess.tla ----------------------------------------------
PP_CONSTS = {"MaxOcc": 1, "TrailSet": "few", "Fault": "none", "EmitCases": False}
PP_INVS = ["AllCanonical", "NoResidue", "OthersKept", "ResultIsExpected", "FixedPoint", "StepsAreFunction",
           "DefaultsOnlyFillGaps"]
PP_NSW = {"N": "North", "S": "South", "E": "East", "W": "West", "-": ""}


def pp_render_tr(f):
    """One fixed spelling per (template class, numbers, directions): equal atoms are equal text."""
    ns = f["ns"] if f["ns"] != "-" else ""
    ew = f["ew"] if f["ew"] != "-" else ""
    tm = f["tm"]
    if tm == "T-R":
        out = "T%d%s-R%d%s" % (f["t"], ns, f["r"], ew)
    elif tm == "T.,R.":
        out = ("T. %d %s., R. %d %s" if ns and ew else "T. %d%s, R. %d%s") % (f["t"], ns, f["r"], ew)
    elif tm == "Township,Range":
        out = "Township %d %s, Range %d %s" % (f["t"], PP_NSW[f["ns"]], f["r"], PP_NSW[f["ew"]])
    else:
        out = "%d%s-%d%s" % (f["t"], ns, f["r"], ew)
    return " ".join(out.split()).replace(" ,", ",")


def pp_fill(i):
    return "Sec %d: NE/4 and that part lying north of the river" % (10 + i)


def pp_render_atom(a):
    k = a["k"]
    return {"sp": " ", "nl": "\n", "pm": "of the 5th P.M."}.get(k) or (a["x"] if k == "p" else "?")


def pp_case(cid, c):
    parts, full, fills = [], [], {}
    n = len(c["occ"])
    for i, o in enumerate(c["occ"], 1):
        parts.append(pp_render_tr(o["form"]))
        # the same description with the missing directions written out (the configured defaults)
        f = o["form"]
        full.append(pp_render_tr(dict(f, ns=f["ns"] if f["ns"] != "-" else c["dflt"]["ns"],
                                      ew=f["ew"] if f["ew"] != "-" else c["dflt"]["ew"])))
        rest = [pp_render_atom(a) for a in o["trail"]]
        if o["pm"]:
            rest.append(" of the 5th P.M.,")
        fills[str(i)] = pp_fill(i)
        rest.append(" " + fills[str(i)])
        if i < n:
            rest.append("; ")
        parts += rest
        full += rest
    return {"id": cid, "kind": "c08doc", "abs": {"occ": c["occ"], "dflt": c["dflt"]},
            "args": {"text": "".join(parts), "written_out": "".join(full), "dflt": c["dflt"], "fills": fills}}


def check_docs(ctx, cases):
    obs = ctx.impl_map("c08_doc", cases, chunksize=50)
    recs, by_id = [], {}
    for c in cases:
        o = obs.get(c["id"])
        if o is None:
            continue
        by_id[c["id"]] = c
        recs.append({"id": c["id"], "occ": c["abs"]["occ"], "dflt": c["abs"]["dflt"], "obs": o.get("obs") or [],
                     "found": o.get("found") or [], "tracts": o.get("tracts") or [], "leftover": bool(o.get("leftover")),
                     "again": bool(o.get("again")), "as_written_out": bool(o.get("as_written_out", True)), "exc": o.get("exc", "none")})
        ctx.nontrivial.add((c["args"]["text"], c["abs"]["dflt"]["ns"], c["abs"]["dflt"]["ew"]))
    fails, drifts = ctx.validate("PreprocessTrace", recs, PP_CONSTS, invariants=("Verdict", "Drift"))
    for cid, clause, *_ in fails:
        o = obs[cid]
        ctx.violation(by_id[cid], clause, {"observed": {k: o.get(k) for k in ("pp_text", "found", "tracts", "leftover", "written_out_diff", "exc", "exc_msg")}})
    if drifts:
        cid = drifts[0]
        ctx.add_drift(len(drifts), {"text": by_id[cid]["args"]["text"], "preprocessed": obs[cid].get("pp_text"),
                                    "model": "Preprocessed(Doc(occ), dflt) of spec/Preprocess.tla"})
    for c in cases[:2]:
        ctx.sample({"text": c["args"]["text"], "defaults": c["args"]["dflt"], "preprocessed": obs.get(c["id"], {}).get("pp_text")})
    return fails


def run_docs(ctx, thorough):
    """The six scrubbing passes over descriptions with several Twp/Rges (spec/Preprocess.tla)."""
    big = {"MaxOcc": 2, "TrailSet": "few", "Fault": "none", "EmitCases": False}
    ctx.tlc("Preprocess", big, invariants=PP_INVS)
    ctx.tlc("Preprocess", dict(big, MaxOcc=1, TrailSet="all"), invariants=PP_INVS, coverage=True)
    ctx.require_actions(["AddOcc", "Start", "RunTwpRge", "RunNoNSWE", "RunNoNSR", "RunNoEWT", "RunPM", "RunCommaRemove", "Reduce"])
    # the behaviour of the pinned tree (known finding F14) breaks both claims in the model
    ctx.tlc("Preprocess", dict(big, Fault="replace_all"), invariants=["AllCanonical"], expect_violation="replace_all", count=False)
    if thorough:
        ctx.tlc("Preprocess", dict(big, Fault="replace_all"), invariants=["NoResidue"], expect_violation="replace_all", count=False)
    cases = []
    res = ctx.tlc("Preprocess", dict(big, MaxOcc=1, TrailSet="all", EmitCases=True), invariants=["EmitCase"], workers=1,
                  count=False)
    for i, c in enumerate(res.cases):
        cases.append(pp_case("d1_%d" % i, c))
    n_sim = 60000 if thorough else 7000
    res = ctx.tlc("Preprocess", dict(big, MaxOcc=3, TrailSet="all", EmitCases=True), invariants=["EmitCase"] + PP_INVS,
                  workers=1, count=False, simulate="num=%d" % n_sim, depth=12)
    seen = set()
    for i, c in enumerate(res.cases):
        key = repr((c["occ"], c["dflt"]))
        if key in seen:
            continue
        seen.add(key)
        cases.append(pp_case("ds_%d" % i, c))
    if len(cases) < 1000:
        raise core.MachineryFailure("Preprocess emitted only %d cases" % len(cases))
    check_docs(ctx, cases)
    return len(cases)


def run(ctx):
    thorough = ctx.tier == "thorough"
    ndocs = run_docs(ctx, thorough)
    invs = ["ExplicitKept", "MissingFromDefault", "SameAsWrittenOut"]
    ctx.tlc("TwpRgeLex", {"MaxTR": 1, "Fault": "none", "EmitCases": False}, invariants=invs, coverage=True)
    ctx.require_actions(["Choose"])
    ctx.tlc("TwpRgeLex", {"MaxTR": 1, "Fault": "default_overrides", "EmitCases": False}, invariants=invs,
            expect_violation="default_overrides", count=False)
    res = ctx.tlc("TwpRgeLex", {"MaxTR": 1, "Fault": "none", "EmitCases": True}, invariants=["EmitCase"], workers=1,
                  count=False)
    cases = []
    singles = res.cases
    keep = 0.5 if thorough else 0.08
    for i, c in enumerate(singles):
        if ctx.rng.random() > keep:
            continue
        cases.append(mk_case("e%d" % i, c, ctx.rng))
    # two Twp/Rges per description (incl. the same Twp/Rge once complete and once with a missing direction)
    for n in range(6000 if thorough else 1200):
        a, b = ctx.rng.choice(singles), ctx.rng.choice(singles)
        if ctx.rng.random() < 0.4:
            # make b denote the same Twp/Rge as a
            ea = a["expect"][0]
            fb = dict(b["forms"][0], t=ea["t"], r=ea["r"])
            if fb["r"] == 2 and fb["tmpl"] == "bare":
                fb["tmpl"] = "T-R"
            for ax in ("ns", "ew"):
                if fb[ax] != "-":
                    fb[ax] = ea[ax]
            b = dict(b, forms=[fb])
        ocr = a["ocr"]
        dn = {"N": "N", "S": "S"}[a["dflt"]["ns"]]
        d = {"ns": dn, "ew": a["dflt"]["ew"]}
        eff = {"ns": d["ns"] if a["src"]["ns"] != "unset" else "N", "ew": d["ew"] if a["src"]["ew"] != "unset" else "W"}
        forms = [a["forms"][0], b["forms"][0]]
        expect = [{"t": f["t"], "r": f["r"], "ns": f["ns"] if f["ns"] != "-" else eff["ns"],
                   "ew": f["ew"] if f["ew"] != "-" else eff["ew"]} for f in forms]
        cases.append(mk_case("p%d" % n, {"forms": forms, "dflt": d, "src": a["src"], "ocr": ocr, "expect": expect},
                             ctx.rng, origin="pairs"))
    if not cases:
        raise core.MachineryFailure("TwpRgeLex emitted no cases")
    ctx.exhaustive = thorough
    check(ctx, cases)
    ctx.rule = ("written forms = every (template class x numbers {1,7,104,154} x {2,12,97,100} x each direction present N/S/E/W or absent) "
                "x defaults x source per axis (config / parse keyword / MasterConfig / unset, independently for N/S and E/W) x ocr_scrub of spec/TwpRgeLex.tla (%d%%), "
                "each rendered with a random concrete spelling, plus pairs of Twp/Rges in one description (40%% denoting the same "
                "Twp/Rge, one of them with a missing direction); non-trivial = distinct (text, source, defaults, ocr)"
                % int(keep * 100)
                + "; whole descriptions of spec/Preprocess.tla (1-3 Twp/Rge occurrences x trailing punctuation x Principal "
                  "Meridian wording x defaults): all with one occurrence, %d behaviours of TLC's simulation mode for up to three" % ndocs)
    ctx.assumptions += ["spelling templates of harness/drivers/c08.py (DESIGN Appendix A); a missing direction is only written "
                        "with the T and R words present; range 2 only with the R word (documented exception)",
                        "OCR look-alikes are substituted into non-final digits only"]


def replay(ctx, payload):
    case = payload["case"]
    fails = check_docs(ctx, [case]) if case.get("kind") == "c08doc" else check(ctx, [case])
    if fails:
        print("VIOLATION property=C08 replay=(replayed) clause=%s" % fails[0][1])
        return 1
    print("replayed case passes on the current tree: %r" % case["args"]["text"])
    return 0
