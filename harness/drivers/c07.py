"""C07  Aliquot spelling does not matter and preprocessing is a fixed point.

spec/AliquotLex.tla       spelling classes, joiners, glue rule, which components are recognised (bare-quarter rule)
spec/AliquotLexTrace.tla  normal form = canonical symbols, same results as the canonical spelling, fixed point
"""
from .. import core

HALF_WORD = {"N": "North", "S": "South", "E": "East", "W": "West"}
Q_WORD = {"NE": ["Northeast", "North East"], "NW": ["Northwest", "North West"], "SE": ["Southeast", "South East"],
          "SW": ["Southwest", "South West"]}
JOIN = {"NONE": "", "SPACE": " ", "OF": " of ", "OFTHE": " of the "}
CONSTS = {"MaxLen": 1, "Fault": "none", "EmitCases": False}


def spell(kind, cls, d, rng, glued_after=False):
    if kind == "H":
        w = HALF_WORD[d]
        opts = {"SYM": [d + "½"], "SLASH": [d + "/2"], "BARE": [d + "2", d + "2", d + " 2"],
                "FRAC": [d + " 1/2", d + "1/2", d + " / 2", d + " /2", d + ". 1/2"],
                "WORD": [w + " Half"], "WORDONE": [w + " One Half", w + " One-Half"],
                "WORDFRAC": [w + " 1/2"] + (["No. 1/2"] if d == "N" else []) + (["So. 1/2"] if d == "S" else [])}[cls]
    else:
        ws = Q_WORD[d]
        dotted = "%s.%s." % (d[0], d[1])
        opts = {"SYM": [d + "¼"], "SLASH": [d + "/4"], "BARE": [d + "4", d + "4", d + " 4"],
                "FRAC": [d + " 1/4", d + "1/4", d + " / 4", dotted + " 1/4"],
                "WORD": [x + " Quarter" for x in ws] + [ws[1].replace(" ", "-") + " Quarter"],
                "WORDONE": [x + " One Quarter" for x in ws] + [ws[0] + " One-Quarter"],
                "WORDFRAC": [ws[0] + " 1/4"],
                # (the dotted bare quarter 'N.E.' only where something separates it from what follows)
                "BAREQ": [d] if glued_after else [d, d, d, dotted]}[cls]
    s = rng.choice(opts)
    r = rng.random()
    if cls != "SYM":
        if r < 0.2:
            s = s.lower()
        elif r < 0.3:
            s = s.upper()
    return s


def must_be_aliquot(w, js, clean, i):
    """mirror of AliquotLexTrace!MustBeAliquot (only used to decide which results to compare with the canonical text)"""
    if w[i]["class"] != "BAREQ" or clean:
        return True
    h = i - 1
    while h >= 0 and w[h]["class"] == "BAREQ":
        h -= 1
    if h < 0 or w[h]["kind"] != "H":
        return False
    return h == 0 or js[h - 1] != "NONE" or w[h - 1]["kind"] == "H"


def mk_case(cid, w, js, clean, recognised, rng, origin="tlc"):
    hs, qs = ["N", "S", "E", "W"], ["NE", "NW", "SE", "SW"]
    rng.shuffle(hs)
    rng.shuffle(qs)
    dirs = []
    # directions drawn with replacement (the same half / quarter may recur in a chain) - only where every component must
    # be read as an aliquot: whether a bare quarter was *not* read as one is observed through its direction being absent
    # from the result, which needs distinct directions
    repeat = rng.random() < 0.4 and all(must_be_aliquot(w, js, clean, i) for i in range(len(w)))
    for c in w:
        if repeat:
            pool = ["N", "S", "E", "W"] if c["kind"] == "H" else ["NE", "NW", "SE", "SW"]
            same = [d for d, c2 in zip(dirs, w) if c2["kind"] == c["kind"]]
            dirs.append(same[-1] if same and rng.random() < 0.5 else rng.choice(pool))
        else:
            dirs.append(hs.pop() if c["kind"] == "H" else qs.pop())
    glued = [k < len(js) and js[k] == "NONE" for k in range(len(w))]
    text = spell(w[0]["kind"], w[0]["class"], dirs[0], rng, glued[0])
    for k, (j, c, d) in enumerate(zip(js, w[1:], dirs[1:]), start=1):
        jt = JOIN[j]
        if j != "NONE" and rng.random() < 0.12:
            # a description wraps anywhere: the blank of a joiner may be a line break (or a tab)
            jt = jt[:-1] + rng.choice(["\n", "\n", "\r\n", "\t"])
        text += jt + spell(c["kind"], c["class"], d, rng, glued[k])
    canon = "".join(d + ("½" if c["kind"] == "H" else "¼") for c, d in zip(w, dirs))
    return {"id": cid, "kind": "c07", "origin": origin,
            "abs": {"w": w, "js": list(js), "clean": bool(clean), "dirs": dirs},
            "args": {"text": text, "canon": canon, "clean": bool(clean), "w": w, "dirs": dirs,
                     "all_recognised": all(must_be_aliquot(w, js, clean, i) for i in range(len(w)))}}


def check(ctx, cases):
    obs = ctx.impl_map("c07", cases)
    recs, by_id = [], {}
    for c in cases:
        o = obs.get(c["id"])
        if o is None:
            continue
        by_id[c["id"]] = c
        a = c["abs"]
        recs.append({"id": c["id"], "w": a["w"], "js": a["js"], "clean": a["clean"], "dirs": a["dirs"],
                     "pp": o.get("pp") or [], "same": bool(o.get("same")), "fixed": bool(o.get("fixed")),
                     "bare": o.get("bare") or [True] * len(a["w"]), "exc": o.get("exc", "none")})
        ctx.nontrivial.add((c["args"]["text"], a["clean"]))
    fails, drifts = ctx.validate("AliquotLexTrace", recs, CONSTS)
    failed = set()
    for cid, clause, *_ in fails:
        o = obs[cid]
        ctx.violation(by_id[cid], clause, {"observed": {k: o.get(k) for k in ("pp_text", "qqs", "same", "fixed", "bare", "exc")}})
    failed = {f[0] for f in fails}
    for cid in drifts:
        if cid not in failed:
            ctx.add_drift(1, {"text": by_id[cid]["args"]["text"], "clean_qq": by_id[cid]["args"]["clean"],
                              "normalised": obs[cid].get("pp_text")})
    for c in cases[:3]:
        ctx.sample({"text": c["args"]["text"], "clean_qq": c["args"]["clean"], "normalised": obs.get(c["id"], {}).get("pp_text")})
    return fails


def run(ctx):
    thorough = ctx.tier == "thorough"
    invs = ["FractionsAlwaysRecognised", "BareOnlyWithContext", "CleanRecognisesAll", "PipelineCanonical", "PipelineSound"]
    props = ["FixedPoint"]
    n = 3
    ctx.tlc("AliquotLex", {"MaxLen": n, "Fault": "none", "EmitCases": False}, invariants=invs, properties=props)
    ctx.tlc("AliquotLex", {"MaxLen": 2, "Fault": "none", "EmitCases": False}, invariants=invs, properties=props,
            coverage=True, count=False)
    ctx.require_actions(["Choose", "Scrub", "CleanQQ", "HalfPlusQ", "RemoveInterveners", "Again"])
    ctx.tlc("AliquotLex", {"MaxLen": 2, "Fault": "bare_always", "EmitCases": False}, invariants=invs,
            expect_violation="bare_always", count=False)
    # the order of the passes matters: clean_qq scrubbers after the intervener removal break the canonical form
    ctx.tlc("AliquotLex", {"MaxLen": 2, "Fault": "clean_last", "EmitCases": False}, invariants=invs, properties=props,
            expect_violation="clean_last", count=False)
    res = ctx.tlc("AliquotLex", {"MaxLen": n, "Fault": "none", "EmitCases": True}, invariants=["EmitCase"], workers=1,
                  count=False, timeout=1800)
    cases = []
    keep3 = 0.35 if thorough else 0.03
    for i, c in enumerate(res.cases):
        has_bare = any(x["class"] == "BAREQ" for x in c["w"])
        two_bare = sum(1 for x in c["w"] if x["class"] == "BAREQ") >= 2
        if len(c["w"]) == 3 and not two_bare and ctx.rng.random() > (keep3 * 8 if has_bare else keep3):
            continue
        if sum(1 for x in c["w"] if x["kind"] == "Q") > 4 or sum(1 for x in c["w"] if x["kind"] == "H") > 4:
            continue
        cases.append(mk_case("e%d" % i, c["w"], c["js"], c["clean"], c["recognised"], ctx.rng))
        if len(c["w"]) <= 2:            # short chains twice more: other spellings of the same classes, other directions
            # (the spaced short spellings 'N 2', 'N /2', 'E 1/2' have the most variants: more renderings of those)
            spaced = len(c["w"]) == 2 and all(x["class"] in ("BARE", "FRAC") for x in c["w"])
            for rep in range(1, 13 if spaced else 3):
                cases.append(mk_case("e%d_%d" % (i, rep), c["w"], c["js"], c["clean"], c["recognised"], ctx.rng))
    if not cases:
        raise core.MachineryFailure("AliquotLex emitted no cases")
    ctx.exhaustive = False
    check(ctx, cases)
    ctx.rule = ("written chains = every (kind, spelling class) sequence up to 2 components x joiners x clean_qq of "
                "spec/AliquotLex.tla (all) and %d%% of the 3-component ones, each rendered with a random concrete spelling (chains of 1-2 components three times) of "
                "its class (letter case varied) and random directions (distinct, or - where every component must be read as an aliquot - in 40%% of the cases drawn with replacement); compared with the canonical symbol text under "
                "5 configurations; non-trivial = distinct (text, clean_qq)" % int(keep3 * 100))
    ctx.assumptions += ["spelling tables of harness/drivers/c07.py (DESIGN Appendix A)",
                        "an empty joiner is not placed after a spelling that ends in a letter (except between bare quarters)"]


def replay(ctx, payload):
    case = payload["case"]
    fails = check(ctx, [case])
    if fails:
        print("VIOLATION property=C07 replay=(replayed) clause=%s" % fails[0][1])
        return 1
    print("replayed case passes on the current tree: %r" % case["args"]["text"])
    return 0
