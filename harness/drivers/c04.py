"""C04  No description text is silently dropped.

spec/PlssDesc.tla       token sequences whose LONG text tokens are unique foreign marker words
spec/ObsInvariants.tla  ClauseC04: every marker is in a tract description or in an unused_desc flag
spec/PlssDoc.tla        document shapes that are rendered, damaged and seeded with marker words
"""
from .. import core, plssdoc, plsssoup, plsstok
from .. import render as R

PROP = "C04"
DOC_CONFIGS = [None, "segment", "sec_within", "sec_colon_required", "sec_colon_cautious", "segment,sec_within",
               "TRS_desc", "desc_STR", "S_desc_TR", "TR_desc_S", "copy_all", "segment,sec_colon_cautious"]


_BEFORE_TR = None


def damage(text, rng):
    global _BEFORE_TR
    import re
    if _BEFORE_TR is None:
        _BEFORE_TR = re.compile(r"(,| of| in) (?=(T\d|Township|Twp|T\. |t\d|\d{1,3}[NS]))")
    if rng.random() < 0.2:
        # the wordier connecting phrases between a section and its Twp/Rge ('... Sec 14, all within T154N-R97W')
        ms = list(_BEFORE_TR.finditer(text))
        if ms:
            m = rng.choice(ms)
            text = text[:m.start()] + rng.choice([" all of ", ", all within ", " lying within ", ", all in "]) + text[m.end():]
    words = text.split(" ")
    r = rng.random()
    if r < 0.2:
        return text.replace(":", "")
    if r < 0.4 and len(words) > 2:
        del words[rng.randrange(len(words))]
        return " ".join(words)
    if r < 0.5:
        return text + " " + R.render_tr(rng.choice([1, 2, 3]), rng)
    if r < 0.6:
        return R.render_sec([rng.choice([rng.randint(1, 36), rng.randint(37, 999)])], [], rng.random() < 0.5, rng) + " " + text
    return text


def doc_cases(ctx, shapes, per_shape, prefix="d"):
    cases = []
    for i, a in enumerate(shapes):
        # (a section reference may carry any number the pattern reads: two-digit numbers above 36, three-digit numbers)
        doc = plssdoc.concretise(a, ctx.rng, vary_tr=True, max_sec=ctx.rng.choice([36, 36, 36, 99, 999]))
        for k in range(per_shape):
            text = damage(plssdoc.render_doc(doc, ctx.rng), ctx.rng)
            words = text.split(" ")
            markers = []
            base = 500 if ctx.rng.random() < 0.25 else 10       # (a quarter of the texts: words with 'PM' inside)
            for m in range(4):          # four insertion points per text
                pos = ctx.rng.randint(0, len(words))
                mid = base + len(markers)
                words.insert(pos, R.marker(mid))
                markers.append(mid)
            cfg = ctx.rng.choice(DOC_CONFIGS)
            cases.append({"id": "%s%d_%d" % (prefix, i, k), "kind": "plss", "origin": "damaged document",
                          "abs": {}, "args": {"text": " ".join(words), "config": cfg, "markers": markers,
                                              "source": "SRC-1"}})
            if ctx.rng.random() < 0.2:
                # what a caller holds who only asked what the tracts would be (parse(commit=False) on a description
                # created with wait_to_parse): the returned tracts, with their own flags, are the whole report
                cases[-1]["args"]["view"] = "dry_tracts"
    return cases


def run(ctx):
    thorough = ctx.tier == "thorough"
    cases = plsssoup.model_cases(ctx, 4 if thorough else 3, plsssoup.ALL_CONFIGS, keep=0.5 if thorough else 1.0)
    ctx.exhaustive = not thorough
    plsssoup.judge(ctx, PROP, cases)
    # the marker-walk model (spec/PlssWalk.tla): design invariants + replay of every terminal state (drift only)
    plsssoup.walk_conformance(ctx, 4 if thorough else 3, keep=0.3 if thorough else 1.0)
    # longer sequences over the core alphabet: every arrangement of marker words around one Twp/Rge and sections
    more = plsssoup.model_cases(ctx, 6 if thorough else 5,
                                ["default", "segment", "secwithin", "seg_within", "within_req", "cautious", "f_S_desc_TR",
                                 "f_TRS_desc", "f_desc_STR"],
                                keep=0.5 if thorough else 0.3, check_model=False, prefix="k", alphabet="core", minlen=4)
    plsssoup.judge(ctx, PROP, more)
    # damaged documents with four marker insertions each
    res = ctx.tlc("PlssDoc", {"MaxGroups": 2, "MaxSecs": 2, "TRIds": {1, 2}, "Fault": "none", "EmitCases": True},
                  invariants=["EmitCase"], workers=1, count=False)
    shapes = [a for a in res.cases if ctx.rng.random() < (0.5 if thorough else 0.08)]
    plsssoup.judge(ctx, PROP, doc_cases(ctx, shapes, 4 if thorough else 3))
    ctx.rule = ("(a) token sequences of spec/PlssDesc.tla (<= %d tokens, 15 configurations) whose long text tokens are "
                "unique marker words, (b) core-alphabet sequences of 4..%d tokens under 9 configurations, (c) rendered "
                "documents (shapes from spec/PlssDoc.tla), damaged (colons removed, word deleted, stray Twp/Rge or section "
                "added) with 4 marker words inserted at random word boundaries x 12 configurations; non-trivial = distinct "
                "(text, configuration)" % (4 if thorough else 3, 6 if thorough else 5))
    ctx.assumptions += ["marker words are 6 letters over {Q,X,J,V,Z,K} (a quarter of the documents: with 'PM' inside, as in "
                        "'development'): they match none of the library's patterns and are "
                        "never culled or below the 4-character reporting threshold",
                        "no principal-meridian phrases are generated (insertion points inside them are exempt)"]


def replay(ctx, payload):
    return plsssoup.generic_replay(ctx, PROP, payload)
