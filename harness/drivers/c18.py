"""C18  Filter/group operations partition the list; containers never drop silently.

spec/Containers.tla       criteria denotations, duplicate scan, reverse popping, grouping, entry-path decision table
spec/ContainersTrace.tla  verdicts on observed filter / group / entry operations
"""
from .. import core

CONSTS = {"MaxLen": 1, "Shapes": {"a1"}, "Fault": "none", "EmitCases": False}
ALL_SHAPES = ["a1", "a1again", "a2", "a3", "b1", "c1", "eT", "eS", "uS", "uTeS", "eAll", "p0a", "p0b", "z0"]
SHAPE = {
    "a1": dict(inst=1, tk="num", rk="num", sk="num", trs=1, parsed=True, lq=1, pp=1, g1="x", g2="p"),
    "a1again": dict(inst=1, tk="num", rk="num", sk="num", trs=1, parsed=True, lq=1, pp=1, g1="x", g2="p"),
    "a2": dict(inst=2, tk="num", rk="num", sk="num", trs=1, parsed=True, lq=1, pp=2, g1="x", g2="p"),
    "a3": dict(inst=3, tk="num", rk="num", sk="num", trs=1, parsed=False, lq=0, pp=1, g1="x", g2="p"),
    "b1": dict(inst=4, tk="num", rk="num", sk="num", trs=2, parsed=True, lq=1, pp=1, g1="x", g2="q"),
    "c1": dict(inst=5, tk="num", rk="num", sk="num", trs=3, parsed=True, lq=2, pp=3, g1="y", g2="p"),
    "p0a": dict(inst=11, tk="num", rk="num", sk="num", trs=1, parsed=True, lq=3, pp=4, g1="x", g2="p"),
    "p0b": dict(inst=12, tk="num", rk="num", sk="num", trs=1, parsed=True, lq=3, pp=5, g1="x", g2="p"),
    "z0": dict(inst=13, tk="num", rk="num", sk="num", trs=9, parsed=True, lq=1, pp=1, g1="v", g2="t"),
    "eT": dict(inst=6, tk="err", rk="num", sk="num", trs=4, parsed=False, lq=0, pp=1, g1="z", g2="p"),
    "eS": dict(inst=7, tk="num", rk="num", sk="err", trs=5, parsed=True, lq=1, pp=1, g1="x", g2="r"),
    "uS": dict(inst=8, tk="num", rk="num", sk="undef", trs=6, parsed=False, lq=0, pp=1, g1="x", g2="s"),
    "uTeS": dict(inst=9, tk="undef", rk="num", sk="err", trs=7, parsed=False, lq=0, pp=1, g1="w", g2="r"),
    "eAll": dict(inst=10, tk="err", rk="err", sk="err", trs=8, parsed=False, lq=0, pp=1, g1="z", g2="r"),
}
ITEM_KINDS = ["tract", "trs", "str", "int", "none", "float", "plssdesc", "list_of_tracts", "tractlist", "trslist"]
PATHS = ["ctor", "extend", "iadd", "add", "append", "insert", "setitem", "from_multiple"]


def as_trs_list(lst):
    """abstract elements as they are in a TRSList: identity = the Twp/Rge/Sec string, nothing parsed"""
    return [dict(e, inst=e["trs"], parsed=False, lq=0, pp=0) for e in lst]


def filter_case(cid, lst, op, container, rng):
    args = {"lst": lst, "op": op, "container": container}
    if op["name"] == "filter_duplicates":
        default = "trs" if container == "TRSList" else "instance"
        if op["method"] == default and rng.random() < 0.5:
            args["use_default"] = True
    return {"id": cid, "kind": "c18_filter", "abs": {"kind": "filter", "lst": lst, "op": op}, "args": args}


def check(ctx, cases):
    obs = {}
    by_kind = {}
    for c in cases:
        by_kind.setdefault(c["kind"], []).append(c)
    for k, cs in by_kind.items():
        obs.update(ctx.impl_map(k, cs))
    recs, by_id = [], {}
    for c in cases:
        o = obs.get(c["id"])
        if o is None:
            continue
        by_id[c["id"]] = c
        a = c["abs"]
        r = {"id": c["id"], "kind": a["kind"], "exc": o.get("exc", "none")}
        if a["kind"] == "filter":
            r.update(lst=a["lst"], op=a["op"], sel=o.get("sel", []), rest=o.get("rest", []))
        elif a["kind"] == "group":
            r.update(lst=a["lst"], attrs=a["attrs"], groups=o.get("groups", []), unpacked=o.get("unpacked", []))
        else:
            r.update(target=a["target"], path=a["path"], items=a["items"], base=a["base"], len=o.get("len", -1),
                     types_ok=bool(o.get("types_ok")), order_ok=bool(o.get("order_ok")))
        recs.append(r)
        ctx.nontrivial.add(core.json.dumps([c["kind"], c["args"]], sort_keys=True, default=str))
    fails, _ = ctx.validate("ContainersTrace", recs, CONSTS, invariants=("Verdict",))
    for cid, clause, *_ in fails:
        ctx.violation(by_id[cid], clause, {"observed": obs[cid]})
    for k in by_kind:
        c = by_kind[k][0]
        ctx.sample({"case": {x: y for x, y in c["args"].items()}, "observed": obs.get(c["id"])})
    return fails


def run(ctx):
    thorough = ctx.tier == "thorough"
    invs = ["InOrder", "Partition", "NoDropKeepsAll", "ScanEqualsDenotation", "ErrorsCriterion"]
    shapes = {"a1", "a1again", "a2", "a3", "b1", "eT", "uS", "uTeS", "p0a", "p0b", "z0"}
    ctx.tlc("Containers", {"MaxLen": 3, "Shapes": shapes, "Fault": "none", "EmitCases": False}, invariants=invs)
    ctx.tlc("Containers", {"MaxLen": 2, "Shapes": {"a1", "a2", "eT"}, "Fault": "none", "EmitCases": False}, invariants=invs,
            coverage=True, count=False)
    ctx.require_actions(["Choose", "Apply"])
    for fault in ("pop_forward", "undef_shadows_error"):
        ctx.tlc("Containers", {"MaxLen": 3, "Shapes": {"a1", "a1again", "a2", "uTeS"}, "Fault": fault, "EmitCases": False},
                invariants=invs, expect_violation=fault, count=False)
    res = ctx.tlc("Containers", {"MaxLen": 3 if thorough else 2, "Shapes": shapes if not thorough else {"a1", "a1again", "a2", "a3", "eT", "uTeS"},
                                 "Fault": "none", "EmitCases": True}, invariants=["EmitCase"], workers=1, count=False)
    cases = []
    for i, c in enumerate(res.cases):
        if thorough and ctx.rng.random() > 0.4:
            continue
        cont = ctx.rng.choice(["TractList", "TractList", "TRSList", "PLSSDesc"])
        lst = c["lst"]
        op = c["op"]
        if cont == "TRSList":
            if op["name"] == "filter" and op["pred"] == "parsed":
                cont = "TractList"
            else:
                lst = as_trs_list(lst)
        cases.append(filter_case("e%d" % i, lst, op, cont, ctx.rng))
    if not cases:
        raise core.MachineryFailure("Containers emitted no cases")
    ctx.exhaustive = not thorough
    # longer random lists: filters and groups
    crit_bits = [dict(twp=a, rge=b, sec=c, undef=d) for a in (True, False) for b in (True, False) for c in (True, False)
                 for d in (True, False)]
    nop = {"name": "none", "pred": "all", "crit": crit_bits[0], "method": "instance", "drop": False}
    for n in range(6000 if thorough else 800):
        L = ctx.rng.randint(2, 8)
        lst = [dict(SHAPE[ctx.rng.choice(ALL_SHAPES)]) for _ in range(L)]
        cont = ctx.rng.choice(["TractList", "TRSList", "PLSSDesc"])
        r = ctx.rng.random()
        if r < 0.65:
            kind = ctx.rng.choice(["filter", "filter_errors", "filter_duplicates", "filter_duplicates"])
            op = dict(nop, name=kind, drop=ctx.rng.random() < 0.6)
            if kind == "filter":
                op["pred"] = ctx.rng.choice(["g1_is_x", "parsed", "all", "none"] if cont != "TRSList" else ["g1_is_x", "all", "none"])
            elif kind == "filter_errors":
                op["crit"] = ctx.rng.choice(crit_bits)
            else:
                op["method"] = ctx.rng.choice(["instance", "lots_qqs", "desc", "trs"])
            if cont == "TRSList":
                lst = as_trs_list(lst)
            cases.append(filter_case("r%d" % n, lst, op, cont, ctx.rng))
        else:
            attrs = ctx.rng.choice([["g1"], ["g2"], ["g1", "g2"], ["g2", "g1"], ["g1", "g2", "g1"]])
            cont = "TractList" if cont == "PLSSDesc" else cont
            if cont == "TRSList":
                lst = as_trs_list(lst)
            nested = ctx.rng.random() < 0.5
            cases.append({"id": "g%d" % n, "kind": "c18_group",
                          "abs": {"kind": "group", "lst": lst, "attrs": attrs},
                          "args": {"lst": lst, "attrs": attrs, "nested": nested, "container": cont,
                                   "as_list": ctx.rng.random() < 0.5,
                                   "how": ctx.rng.choice(["method", "method", "into", "function", "plss"])}})
    # entry paths: every path x every single kind, then mixtures
    k = 0
    for target in ("TractList", "TRSList"):
        for path in PATHS:
            combos = [[x] for x in ITEM_KINDS]
            for _ in range(40 if thorough else 12):
                combos.append([ctx.rng.choice(ITEM_KINDS[:3] * 3 + ITEM_KINDS) for _ in range(ctx.rng.randint(2, 4))])
            for items in combos:
                if path == "setitem":
                    items = items[:1]
                base = 0 if path in ("ctor", "from_multiple") else 2
                cases.append({"id": "n%d" % k, "kind": "c18_entry",
                              "abs": {"kind": "entry", "target": target, "path": path, "items": items, "base": base},
                              "args": {"target": target, "path": path, "items": items,
                                       "iterable": ctx.rng.choice(["list", "tuple", "generator"] + (
                                           ["nested_iter", "generator"] if path == "from_multiple" else []))}})
                k += 1
    check(ctx, cases)
    ctx.rule = ("filter cases = every (list up to %d elements over 11 shapes incl. numbers 0, repeated instances, equal TRS, error / undefined "
                "components, parsed / unparsed) x (4 predicates, 16 filter_errors flag sets, 4 duplicate methods) x drop of "
                "spec/Containers.tla, on TractList / TRSList / PLSSDesc wrappers; + random lists of 2..8 elements for filters, "
                "group_by / group_by_nested (1..3 attributes) + unpack_group; entry paths: 8 paths x 2 containers x 11 element "
                "kinds alone and in mixtures, handed over as list / tuple / generator (from_multiple also as one nested one-shot iterator); non-trivial = distinct case" % (3 if thorough else 2))
    ctx.assumptions += ["elements are identified by object identity (repeated instances matched left to right)",
                        "group keys are compared through a fixed value table (twp/sec strings -> symbols)"]


def replay(ctx, payload):
    case = payload["case"]
    fails = check(ctx, [case])
    if fails:
        print("VIOLATION property=C18 replay=(replayed) clause=%s" % fails[0][1])
        return 1
    print("replayed case passes on the current tree")
    return 0
