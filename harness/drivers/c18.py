"""C18  Filter/group operations partition the list; containers never drop silently.

spec/Containers.tla       criteria denotations, duplicate scan, reverse popping, grouping, entry-path decision table
spec/ContainersTrace.tla  verdicts on observed filter / group / entry operations
spec/ContainerSM.tla      the container as a mutable sequence under sequences of calls (x, a derived container y, a plain list z)
spec/ContainerSMTrace.tla every call of every history: observed lists before / after against the model's transition
"""
from .. import core

CONSTS = {"MaxLen": 1, "Shapes": {"a1"}, "Fault": "none", "EmitCases": False}
ALL_SHAPES = ["a1", "a1again", "a2", "a3", "b1", "c1", "eT", "eS", "uS", "uTeS", "eAll", "p0a", "p0b", "z0"]
SHAPE = {
    "a1": dict(inst=1, tk="num", rk="num", sk="num", trs=1, parsed=True, lq=1, pp=1, g1="x", g2="p"),
    "a1again": dict(inst=1, tk="num", rk="num", sk="num", trs=1, parsed=True, lq=1, pp=1, g1="x", g2="p"),
    "a2": dict(inst=2, tk="num", rk="num", sk="num", trs=1, parsed=True, lq=1, pp=2, g1="x", g2="p"),
    "a3": dict(inst=3, tk="num", rk="num", sk="num", trs=1, parsed=False, lq=0, pp=1, g1="x", g2="p"),
    "b1": dict(inst=4, tk="num", rk="num", sk="num", trs=2, parsed=True, lq=1, pp=1, g1="x", g2="q"),
    "c1": dict(inst=5, tk="num", rk="num", sk="num", trs=3, parsed=True, lq=2, pp=3, g1="y", g2="p"),
    "p0a": dict(inst=11, tk="num", rk="num", sk="num", trs=1, parsed=True, lq=3, pp=4, g1="x", g2="p"),
    "p0b": dict(inst=12, tk="num", rk="num", sk="num", trs=1, parsed=True, lq=3, pp=5, g1="x", g2="p"),
    "z0": dict(inst=13, tk="num", rk="num", sk="num", trs=9, parsed=True, lq=1, pp=1, g1="v", g2="t"),
    "eT": dict(inst=6, tk="err", rk="num", sk="num", trs=4, parsed=False, lq=0, pp=1, g1="z", g2="p"),
    "eS": dict(inst=7, tk="num", rk="num", sk="err", trs=5, parsed=True, lq=1, pp=1, g1="x", g2="r"),
    "uS": dict(inst=8, tk="num", rk="num", sk="undef", trs=6, parsed=False, lq=0, pp=1, g1="x", g2="s"),
    "uTeS": dict(inst=9, tk="undef", rk="num", sk="err", trs=7, parsed=False, lq=0, pp=1, g1="w", g2="r"),
    "eAll": dict(inst=10, tk="err", rk="err", sk="err", trs=8, parsed=False, lq=0, pp=1, g1="z", g2="r"),
}
NUM_SHAPES = ["a1", "a2", "a3", "b1", "c1", "p0a", "z0", "z0", "z0"]
ITEM_KINDS = ["tract", "trs", "str", "int", "none", "float", "plssdesc", "list_of_tracts", "tractlist", "trslist"]
PATHS = ["ctor", "extend", "iadd", "add", "append", "insert", "setitem", "from_multiple"]


def as_trs_list(lst):
    """abstract elements as they are in a TRSList: identity = the Twp/Rge/Sec string, nothing parsed"""
    return [dict(e, inst=e["trs"], parsed=False, lq=0, pp=0) for e in lst]


def filter_case(cid, lst, op, container, rng):
    args = {"lst": lst, "op": op, "container": container}
    if op["name"] == "filter_duplicates":
        default = "trs" if container == "TRSList" else "instance"
        if op["method"] == default and rng.random() < 0.5:
            args["use_default"] = True
    return {"id": cid, "kind": "c18_filter", "abs": {"kind": "filter", "lst": lst, "op": op}, "args": args}


SM_CONSTS = {"MaxOps": 1, "Good": {1, 2, 3}, "MaxIter": 3, "Fault": "none", "EmitCases": False}
SM_BAD = {"TractList": ["trs", "str", "int", "none", "list", "plss"], "TRSList": ["int", "none", "float", "list", "plss"]}


def sm_op(name, tgt="x", i=0, e=0, it=()):
    return {"name": name, "tgt": tgt, "i": i, "e": e, "it": list(it)}


def sm_dress(ctx, ops, container):
    """add what the model leaves open: how an iterable is handed over, which refused object stands for 0, in which
    acceptable form an element is supplied to a TRSList"""
    out = []
    for o in ops:
        o = dict(o, it=list(o["it"]))
        o["form"] = ctx.rng.choice(["list", "tuple", "generator", "container"])
        o["bad"] = ctx.rng.choice(SM_BAD[container])
        o["gform"] = ctx.rng.choice(["trs", "str", "tract"])
        out.append(o)
    return out


def sm_random_history(ctx, n):
    good = [1, 2, 3]
    def it(maxlen=3, bad_p=0.15):
        return [0 if ctx.rng.random() < bad_p else ctx.rng.choice(good) for _ in range(ctx.rng.randint(0, maxlen))]
    ops = [sm_op("new", it=it(3, 0.03))]
    for _ in range(n):
        r = ctx.rng.random()
        if r < 0.3:
            ops.append(sm_op(ctx.rng.choice(["extend", "iadd", "add", "extend", "iadd", "add", "radd"]), it=it()))
        elif r < 0.4:
            ops.append(sm_op("append", e=ctx.rng.choice(good + [0])))
        elif r < 0.5:
            ops.append(sm_op("insert", i=ctx.rng.randint(-4, 4), e=ctx.rng.choice(good + good + [0])))
        elif r < 0.58:
            ops.append(sm_op("setitem", i=ctx.rng.randint(-3, 3), e=ctx.rng.choice(good + good + [0])))
        elif r < 0.66:
            ops.append(sm_op("pop", i=ctx.rng.choice([-1, -1, 0, 1, 2, 5, -2])))
        elif r < 0.74:
            ops.append(sm_op(ctx.rng.choice(["imul", "mul"]), i=ctx.rng.randint(0, 2)))
        elif r < 0.9:
            ops.append(sm_op(ctx.rng.choice(["extend_str", "extend_self", "iadd_self", "extend_y", "reverse", "copy", "tolist",
                                             "eq_y", "filter_drop", "filter_keep"])))
        elif r < 0.93:
            ops.append(sm_op("slice", i=ctx.rng.randint(0, 2)))
        else:
            tgt = ctx.rng.choice(["y", "z"])
            ops.append(ctx.rng.choice([sm_op("append", tgt, e=ctx.rng.choice(good)), sm_op("pop", tgt, i=-1)]
                                      + ([sm_op("reverse", "y")] if tgt == "y" else [])))
    return ops


def check_sm(ctx, cases):
    obs = ctx.impl_map("c18_sm", cases, chunksize=20)
    events, by_id = [], {}
    for c in cases:
        o = obs.get(c["id"])
        if o is None:
            continue
        by_id[c["id"]] = c
        events += [{k: v for k, v in ev.items() if k != "exc_msg"} for ev in o["events"]]
        ctx.nontrivial.add(core.json.dumps(["sm", c["args"]["container"], [(x["name"], x["tgt"], x["i"], x["e"], x["it"])
                                                                             for x in c["args"]["ops"]]]))
    fails, drifts = ctx.validate("ContainerSMTrace", events, SM_CONSTS)
    seen = set()
    for eid, clause, *_ in fails:
        cid, _, seq = eid.rpartition(".")
        if cid in seen:
            continue
        seen.add(cid)
        ev = [e for e in obs[cid]["events"] if e["id"] == eid]
        ctx.violation(by_id[cid], clause, {"at_call": int(seq), "event": ev[0] if ev else None})
    if drifts:
        ctx.add_drift(len(drifts), {"container_sm": [list(d) for d in ctx.last_drift_details[:5]]})
    for c in cases[:2]:
        ctx.sample({"container": c["args"]["container"], "calls": [(x["name"], x["tgt"], x["i"], x["e"], x["it"]) for x in c["args"]["ops"]],
                    "observed": [(e["post"], e["exc"]) for e in obs.get(c["id"], {"events": []})["events"]]})
    return fails


def run_sm(ctx):
    thorough = ctx.tier == "thorough"
    props = ["Atomic", "Independent", "EntryKeepsAll", "Lengths"]
    base = {"MaxOps": 3 if thorough else 2, "Good": {1, 2}, "MaxIter": 2, "Fault": "none", "EmitCases": False}
    ctx.tlc("ContainerSM", base, invariants=["OnlyGood"], properties=props)
    ctx.tlc("ContainerSM", dict(base, MaxOps=2, MaxIter=1), invariants=["OnlyGood"], properties=props, coverage=True, count=False)
    ctx.require_actions(["CallOnX", "CallOnY", "CallOnZ"])
    for fault, prop in (("copy_shares", "Independent"), ("tolist_shares", "Independent"), ("extend_partial", "Atomic")):
        ctx.tlc("ContainerSM", dict(base, MaxOps=3 if prop == "Independent" else 1, MaxIter=1 if prop == "Independent" else 2, Fault=fault),
                invariants=["OnlyGood"], properties=props, expect_violation=fault, count=False)
    cases = []
    # spec -> code: every behaviour with one call, all (thorough: a sample of all) with two, and simulated longer ones
    res = ctx.tlc("ContainerSM", dict(base, MaxOps=1, EmitCases=True), invariants=["EmitCase"], workers=1, count=False)
    hist = list(res.cases)
    if thorough:
        res2 = ctx.tlc("ContainerSM", dict(base, MaxOps=2, EmitCases=True), invariants=["EmitCase"], workers=1, count=False)
        hist += [c for c in res2.cases if ctx.rng.random() < 0.25]
    sim = ctx.tlc("ContainerSM", dict(base, MaxOps=8, Good={1, 2, 3}, EmitCases=True), invariants=["EmitCase"], workers=1,
                  count=False, simulate="num=%d" % (3000 if thorough else 300), depth=10)
    seen = set()
    for c in sim.cases:
        key = core.json.dumps(c, sort_keys=True)
        if key not in seen:
            seen.add(key)
            hist.append(c)
    ctx.notes["container_sm_simulated_behaviours"] = len(seen)
    if not hist or not seen:
        raise core.MachineryFailure("ContainerSM emitted no behaviours")
    for i, c in enumerate(hist):
        cont = ctx.rng.choice(["TractList", "TRSList"])
        cases.append({"id": "s%d" % i, "kind": "c18_sm", "abs": {}, "args": {"container": cont, "ops": sm_dress(ctx, c["ops"], cont)}})
    # code -> spec: random histories with indexes and iterables beyond the model's bounds
    for n in range(4000 if thorough else 400):
        cont = ctx.rng.choice(["TractList", "TRSList"])
        cases.append({"id": "q%d" % n, "kind": "c18_sm", "abs": {},
                      "args": {"container": cont, "ops": sm_dress(ctx, sm_random_history(ctx, ctx.rng.randint(2, 10)), cont)}})
    check_sm(ctx, cases)


def check(ctx, cases):
    obs = {}
    by_kind = {}
    for c in cases:
        by_kind.setdefault(c["kind"], []).append(c)
    for k, cs in by_kind.items():
        obs.update(ctx.impl_map(k, cs))
    recs, by_id = [], {}
    for c in cases:
        o = obs.get(c["id"])
        if o is None:
            continue
        by_id[c["id"]] = c
        a = c["abs"]
        r = {"id": c["id"], "kind": a["kind"], "exc": o.get("exc", "none")}
        if a["kind"] == "filter":
            r.update(lst=a["lst"], op=a["op"], sel=o.get("sel", []), rest=o.get("rest", []))
        elif a["kind"] == "group":
            r.update(lst=a["lst"], attrs=a["attrs"], groups=o.get("groups", []), unpacked=o.get("unpacked", []))
        else:
            r.update(target=a["target"], path=a["path"], items=a["items"], base=a["base"], len=o.get("len", -1),
                     types_ok=bool(o.get("types_ok")), order_ok=bool(o.get("order_ok")))
        recs.append(r)
        ctx.nontrivial.add(core.json.dumps([c["kind"], c["args"]], sort_keys=True, default=str))
    fails, _ = ctx.validate("ContainersTrace", recs, CONSTS, invariants=("Verdict",))
    for cid, clause, *_ in fails:
        ctx.violation(by_id[cid], clause, {"observed": obs[cid]})
    for k in by_kind:
        c = by_kind[k][0]
        ctx.sample({"case": {x: y for x, y in c["args"].items()}, "observed": obs.get(c["id"])})
    return fails


def run(ctx):
    thorough = ctx.tier == "thorough"
    invs = ["InOrder", "Partition", "NoDropKeepsAll", "ScanEqualsDenotation", "ErrorsCriterion"]
    shapes = {"a1", "a1again", "a2", "a3", "b1", "eT", "uS", "uTeS", "p0a", "p0b", "z0"}
    ctx.tlc("Containers", {"MaxLen": 3, "Shapes": shapes, "Fault": "none", "EmitCases": False}, invariants=invs)
    ctx.tlc("Containers", {"MaxLen": 2, "Shapes": {"a1", "a2", "eT"}, "Fault": "none", "EmitCases": False}, invariants=invs,
            coverage=True, count=False)
    ctx.require_actions(["Choose", "Apply"])
    for fault in ("pop_forward", "undef_shadows_error"):
        ctx.tlc("Containers", {"MaxLen": 3, "Shapes": {"a1", "a1again", "a2", "uTeS"}, "Fault": fault, "EmitCases": False},
                invariants=invs, expect_violation=fault, count=False)
    res = ctx.tlc("Containers", {"MaxLen": 3 if thorough else 2, "Shapes": shapes if not thorough else {"a1", "a1again", "a2", "a3", "eT", "uTeS"},
                                 "Fault": "none", "EmitCases": True}, invariants=["EmitCase"], workers=1, count=False)
    cases = []
    for i, c in enumerate(res.cases):
        if thorough and ctx.rng.random() > 0.4:
            continue
        cont = ctx.rng.choice(["TractList", "TractList", "TRSList", "PLSSDesc"])
        lst = c["lst"]
        op = c["op"]
        if cont == "TRSList":
            if op["name"] == "filter" and op["pred"] == "parsed":
                cont = "TractList"
            else:
                lst = as_trs_list(lst)
        cases.append(filter_case("e%d" % i, lst, op, cont, ctx.rng))
    if not cases:
        raise core.MachineryFailure("Containers emitted no cases")
    ctx.exhaustive = not thorough
    # longer random lists: filters and groups
    crit_bits = [dict(twp=a, rge=b, sec=c, undef=d) for a in (True, False) for b in (True, False) for c in (True, False)
                 for d in (True, False)]
    nop = {"name": "none", "pred": "all", "crit": crit_bits[0], "method": "instance", "drop": False}
    for n in range(6000 if thorough else 800):
        L = ctx.rng.randint(2, 8)
        lst = [dict(SHAPE[ctx.rng.choice(ALL_SHAPES)]) for _ in range(L)]
        cont = ctx.rng.choice(["TractList", "TRSList", "PLSSDesc"])
        r = ctx.rng.random()
        if r < 0.65:
            kind = ctx.rng.choice(["filter", "filter_errors", "filter_duplicates", "filter_duplicates"])
            op = dict(nop, name=kind, drop=ctx.rng.random() < 0.6)
            if kind == "filter":
                op["pred"] = ctx.rng.choice(["g1_is_x", "parsed", "all", "none"] if cont != "TRSList" else ["g1_is_x", "all", "none"])
            elif kind == "filter_errors":
                op["crit"] = ctx.rng.choice(crit_bits)
            else:
                op["method"] = ctx.rng.choice(["instance", "lots_qqs", "desc", "trs"])
            if cont == "TRSList":
                lst = as_trs_list(lst)
            cases.append(filter_case("r%d" % n, lst, op, cont, ctx.rng))
        else:
            attrs = ctx.rng.choice([["g1"], ["g2"], ["g1", "g2"], ["g2", "g1"], ["g1", "g2", "g1"]])
            cont = "TractList" if cont == "PLSSDesc" else cont
            if cont == "TRSList":
                lst = as_trs_list(lst)
            nested = ctx.rng.random() < 0.5
            numeric = False
            if ctx.rng.random() < 0.3:
                # grouped by the numbers (twp_num, sec_num) - only lists whose components all are numbers, 0 included
                numeric = True
                lst = [dict(SHAPE[ctx.rng.choice(NUM_SHAPES)]) for _ in range(L)]
                if cont == "TRSList":
                    lst = as_trs_list(lst)
            cases.append({"id": "g%d" % n, "kind": "c18_group",
                          "abs": {"kind": "group", "lst": lst, "attrs": attrs},
                          "args": {"lst": lst, "attrs": attrs, "nested": nested, "container": cont,
                                   "as_list": ctx.rng.random() < 0.5, "numeric": numeric,
                                   "how": ctx.rng.choice(["method", "method", "into", "function", "plss", "into_empty"]),
                                   "into_via": ctx.rng.choice(["method", "function"])}})
    # entry paths: every path x every single kind, then mixtures
    k = 0
    for target in ("TractList", "TRSList"):
        for path in PATHS:
            combos = [[x] for x in ITEM_KINDS]
            for _ in range(40 if thorough else 12):
                combos.append([ctx.rng.choice(ITEM_KINDS[:3] * 3 + ITEM_KINDS) for _ in range(ctx.rng.randint(2, 4))])
            for items in combos:
                if path == "setitem":
                    items = items[:1]
                base = 0 if path in ("ctor", "from_multiple") else 2
                cases.append({"id": "n%d" % k, "kind": "c18_entry",
                              "abs": {"kind": "entry", "target": target, "path": path, "items": items, "base": base},
                              "args": {"target": target, "path": path, "items": items,
                                       "iterable": ctx.rng.choice(["list", "tuple", "generator"] + (
                                           ["nested_iter", "generator"] if path == "from_multiple" else []))}})
                k += 1
    check(ctx, cases)
    run_sm(ctx)
    ctx.rule = ("filter cases = every (list up to %d elements over 11 shapes incl. numbers 0, repeated instances, equal TRS, error / undefined "
                "components, parsed / unparsed) x (4 predicates, 16 filter_errors flag sets, 4 duplicate methods) x drop of "
                "spec/Containers.tla, on TractList / TRSList / PLSSDesc wrappers; + random lists of 2..8 elements for filters, "
                "group_by / group_by_nested (1..3 attributes) + unpack_group; entry paths: 8 paths x 2 containers x 11 element "
                "kinds alone and in mixtures, handed over as list / tuple / generator (from_multiple also as one nested one-shot iterator); "
                "call sequences = every behaviour of spec/ContainerSM.tla with one call (thorough: + 25%% of those with two), TLC-simulated "
                "behaviours of 8 calls and seeded random histories of 2..10 calls (append / extend / += / + / reflected + / *= / * / insert / "
                "__setitem__ / pop / reverse / copy / to_standard_list / slicing / filter / ==, refused objects included), every call "
                "one validated event; non-trivial = distinct case" % (3 if thorough else 2))
    ctx.assumptions += ["elements are identified by object identity (repeated instances matched left to right)",
                        "group keys are compared through a fixed value table (twp/sec strings -> symbols)"]


def replay(ctx, payload):
    case = payload["case"]
    fails = check_sm(ctx, [case]) if case.get("kind") == "c18_sm" else check(ctx, [case])
    if fails:
        print("VIOLATION property=C18 replay=(replayed) clause=%s" % fails[0][1])
        return 1
    print("replayed case passes on the current tree")
    return 0
