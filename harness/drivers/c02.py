"""C02  Aliquot parsing tiles exactly the described area at the requested depth.

spec/Aliquot.tla      geometry (Region, Tiles, DepthOK) + parse_aliquot pipeline
spec/AliquotTrace.tla  evaluates C02 on every observation of the real code
"""
import itertools

from .. import core

SYM = {"N": "N½", "S": "S½", "E": "E½", "W": "W½",
       "NE": "NE¼", "NW": "NW¼", "SE": "SE¼", "SW": "SW¼", "ALL": "ALL"}
CHANNELS = ("config", "kw", "attr", "plss", "mixed", "mixed_plss", "function", "bulk", "bulk_plss")     # mixed: one depth setting configured, the related one by keyword
COMPS = ("N", "S", "E", "W", "NE", "NW", "SE", "SW")


def render(chain):
    return "".join(SYM[c] for c in chain)


def mk_case(cid, chain, dmin, dmax, bh, rng, channel=None, origin="tlc"):
    ch = channel or rng.choice(CHANNELS)
    qd = None
    if dmax and dmax == dmin and rng.random() < 0.5:
        qd = dmin
    return {"id": cid, "kind": "c02", "origin": origin,
            "abs": {"chain": list(chain), "dmin": dmin, "dmax": dmax, "bh": bool(bh)},
            "args": {"text": render(chain), "channel": ch, "dmin": dmin, "dmax": dmax,
                     "bh": bool(bh), "qq_depth": qd}}


def to_record(case, obs):
    r = {"id": case["id"]}
    r.update(case["abs"])
    r["exc"] = obs.get("exc", "none")
    r["pieces"] = obs.get("pieces") or []
    return r


def nontrivial(case):
    a = case["abs"]
    return len(a["chain"]) >= 2 or a["dmax"] != 0 or a["bh"] or a["dmin"] != 2


def check(ctx, cases, expect=None):
    """Run the cases on the implementation, let TLC judge the observations."""
    obs = ctx.impl_map("c02", cases)
    recs, by_id = [], {}
    for c in cases:
        if c["id"] not in obs:
            continue
        by_id[c["id"]] = c
        o = obs[c["id"]]
        if o.get("qqs") is None and o.get("exc") == "none":
            continue   # wrapper could not be used for this case; not an observation
        recs.append(to_record(c, o))
        if nontrivial(c):
            ctx.nontrivial.add((tuple(c["abs"]["chain"]), c["abs"]["dmin"], c["abs"]["dmax"], c["abs"]["bh"]))
    consts = {"MaxLen": 1, "DMins": {1}, "DMaxs": {0}, "GridExp": 12, "Fault": "none",
              "EmitCases": False}
    fails, drifts = ctx.validate("AliquotTrace", recs, consts)
    for cid, clause, *rest in fails:
        c = by_id[cid]
        ctx.violation(c, clause, {"observed": obs[cid]})
    for cid in drifts:
        if not any(cid == f[0] for f in fails):
            ctx.add_drift(1, {"case": by_id[cid]["abs"], "observed": obs[cid].get("qqs")})
    if expect is not None:
        # spec -> code: the model's own expected pieces, compared in Python too
        for c in cases:
            e = expect.get(c["id"])
            o = obs.get(c["id"], {})
            if e is not None and o.get("pieces") is not None and o["pieces"] != e:
                pass  # already counted by the Drift invariant in TLC
    for c in cases[:3]:
        ctx.sample({"input": c["args"], "observed": obs.get(c["id"], {}).get("qqs")})
    return fails


def run(ctx):
    thorough = ctx.tier == "thorough"
    maxlen = 4 if thorough else 3
    base = {"MaxLen": maxlen, "DMins": {1, 2, 3}, "DMaxs": {0, 1, 2, 3, 4}, "GridExp": 8}
    invs = ["PassPreservesRegion", "FixpointQuick", "Standardised", "TruncationIsPerAxisCap",
            "ActionsEqualFunction", "ModelMeetsC02"]
    # 1. design level: the model of parse_aliquot meets C02 for every chain in the bound
    ctx.tlc("Aliquot", dict(base, Fault="none", EmitCases=False), invariants=invs, coverage=True)
    ctx.require_actions(["DoReverse", "LoopTest", "DoPassBack", "DoCombine", "DoTruncate",
                         "DoSubdivide", "DoRebuild"])
    # 2. teeth: each injected design fault must be found by TLC
    for fault in ("table_swap", "depth_off_by_one", "no_truncate", "combine_same_axis"):
        ctx.tlc("Aliquot", dict(base, MaxLen=2, Fault=fault, EmitCases=False), invariants=invs,
                expect_violation=fault, count=False)
    # 3. spec -> code: every terminal state of the model becomes a test case
    res = ctx.tlc("Aliquot", dict(base, Fault="none", EmitCases=True),
                  invariants=["EmitCase"], workers=1, count=False)
    cases, expect = [], {}
    for i, c in enumerate(res.cases):
        cid = "e%d" % i
        cases.append(mk_case(cid, c["chain"], c["dmin"], c["dmax"], c["bh"], ctx.rng))
        expect[cid] = c["expect"]
    if not cases:
        raise core.MachineryFailure("Aliquot emitted no cases")
    ctx.exhaustive = True
    check(ctx, cases, expect)
    # 4. code -> spec beyond the bound: longer chains, deeper settings, all channels
    n_rand = 20000 if thorough else 2500
    rnd = []
    for i in range(n_rand):
        L = ctx.rng.randint(maxlen + 1, 7)
        chain = [ctx.rng.choice(COMPS) for _ in range(L)]
        dmin = ctx.rng.choice((0, 1, 2, 2, 3, 4)) if thorough else ctx.rng.choice((1, 2, 2, 3))
        dmax = ctx.rng.choice([0] + [d for d in range(max(dmin, 1), 7)])
        if dmin == 4 and L + 0 > 6:
            chain = chain[:5]
        rnd.append(mk_case("r%d" % i, chain, dmin, dmax, ctx.rng.random() < 0.5, ctx.rng, origin="random"))
    # every channel on a fixed set of short chains
    k = 0
    for chain in itertools.chain(itertools.product(COMPS, repeat=1), itertools.product(COMPS, repeat=2), [("ALL",)]):
        for ch in CHANNELS:
            for (dmin, dmax, bh) in ((2, 0, False), (1, 1, False), (3, 3, True), (2, 4, True)):
                rnd.append(mk_case("c%d" % k, chain, dmin, dmax, bh, ctx.rng, channel=ch, origin="channels"))
                k += 1
    check(ctx, rnd)
    ctx.rule = ("cases = every (chain, qq_depth_min, qq_depth_max, break_halves) terminal state of "
                "spec/Aliquot.tla with chains up to MaxLen=%d (exhaustive) plus seeded random chains of "
                "length %d..7; settings passed through config text / parse kwargs / attributes / a parent "
                "PLSSDesc / the container's parse_tracts() / parse_aliquot() itself, each returned list modified by the caller afterwards; non-trivial = distinct input with >= 2 components or a non-default depth/break_halves "
                "setting" % (maxlen, maxlen + 1))
    ctx.assumptions += [
        "rendering table SYM (N -> 'N½' ...) and the label tokenizer in harness/impl.py are trusted",
        "TLC's evaluation of spec/Aliquot.tla predicates (Tiles, DepthOK) on integer grid 2^12",
    ]


def replay(ctx, payload):
    case = payload["case"]
    fails = check(ctx, [case])
    if fails:
        print("VIOLATION property=C02 replay=(replayed) clause=%s" % fails[0][1])
        print("replayed case still violates: %s" % case["args"])
        return 1
    print("replayed case passes on the current tree: %s" % case["args"])
    return 0
