"""./check <property> --tier quick|thorough [--replay file]"""
import argparse
import importlib
import json
import os
import sys
import traceback

from . import core


def main(argv=None):
    ap = argparse.ArgumentParser()
    ap.add_argument("prop")
    ap.add_argument("--tier", default=os.environ.get("VERIF_TIER", "quick"),
                    choices=["quick", "thorough"])
    ap.add_argument("--replay")
    ap.add_argument("--seed", type=int, default=int(os.environ.get("VERIF_SEED", "0") or 0))
    args = ap.parse_args(argv)
    prop = args.prop.upper()
    try:
        drv = importlib.import_module("harness.drivers.%s" % prop.lower())
    except ImportError:
        print("no driver for %s" % prop, file=sys.stderr)
        traceback.print_exc()
        return 2
    ctx = core.Ctx(prop, args.tier, args.seed)
    try:
        if args.replay:
            with open(args.replay) as f:
                payload = json.load(f)
            return drv.replay(ctx, payload)
        drv.run(ctx)
        return ctx.finish()
    except core.MachineryFailure as e:
        print("MACHINERY FAILURE in %s: %s" % (prop, e), file=sys.stderr)
        return 2
    except Exception:
        traceback.print_exc()
        return 2
    finally:
        ctx.close()


if __name__ == "__main__":
    sys.exit(main())
