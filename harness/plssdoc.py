"""Concrete documents in the four documented layouts (C01, C20): rendering and
projection of the parsed result back onto (Twp/Rge id, section, block id)."""
import re

from . import render as R

SSEP = [", ", "; ", "\n"]
GSEP = [", ", "; ", "\n", "\n\n"]


def concretise(abstract, rng, max_sec=36, block_pool=None, tr_map=None, vary_tr=False):
    """abstract = {"layout", "groups": [{"tr", "secs": [kind, ...]}]} -> concrete doc with numbers and blocks.
    vary_tr: the abstract Twp/Rge identities 1, 2 stand for two different townships drawn from render.TR_POOL."""
    if vary_tr and tr_map is None:
        a_, b_ = rng.sample(R.TR_POOL, 2)
        tr_map = {1: a_, 2: b_}
    nblocks = sum(len(g["secs"]) for g in abstract["groups"])
    pool = block_pool or R.BLOCKS
    texts = rng.sample(pool, nblocks) if nblocks <= len(pool) else [rng.choice(pool) for _ in range(nblocks)]
    blocks, groups, b = {}, [], 0
    for g in abstract["groups"]:
        secs = []
        for kind in g["secs"]:
            b += 1
            a = rng.randint(1, max_sec - 6)
            if kind == "single":
                nums, conns = [a if rng.random() > 0.1 else max_sec], []
            elif kind == "and":
                nums, conns = [a, rng.randint(1, max_sec)], ["AND"]
            elif kind == "thru":
                d_ = rng.randint(1, 5)
                a = max_sec - d_ if rng.random() < 0.15 else rng.randint(1, max_sec - d_)      # (15%: up to the last section)
                nums, conns = [a, a + d_], ["THRU"]
            else:
                d_ = rng.randint(1, 2)
                a = max_sec - d_ if rng.random() < 0.15 else rng.randint(1, max_sec - d_)
                nums, conns = [a, a + d_, rng.randint(1, max_sec)], ["THRU", "AND"]
            secs.append({"nums": nums, "conns": conns, "block": b})
            blocks[b] = texts[b - 1]
        groups.append({"tr": (tr_map or {}).get(g["tr"], g["tr"]), "secs": secs})
    return {"layout": abstract["layout"], "groups": groups, "blocks": blocks}


def usable(doc):
    """Exclusions stated in DESIGN §6 C01: 'ALL' directly before ' of <Twp/Rge>' is the guide's own false-match rule."""
    return True


def render_doc(doc, rng, colons=True, plain=False, str_connector=None, tr_templates=None):
    lay = doc["layout"]
    blocks = doc["blocks"]
    gparts = []
    ssep = ", " if plain else rng.choice(SSEP)
    for g in doc["groups"]:
        tr = R.render_tr(g["tr"], rng, plain=plain, templates=tr_templates)
        sparts = []
        for sg in g["secs"]:
            blk = blocks[sg["block"]]
            if lay in ("TRS_desc", "S_desc_TR"):
                sec = R.render_sec(sg["nums"], sg["conns"], colons, rng, plain=plain)
                # (without its colon a section may still be set off from its description by other punctuation)
                gap = " " if (colons or plain) else rng.choice([" ", " ", " ", "; ", ", ", " - "])
                sparts.append("%s%s%s" % (sec, gap, blk))
            else:
                sec = R.render_sec(sg["nums"], sg["conns"], False, rng, plain=plain)
                sparts.append("%s of %s" % (blk, sec))
        body = ssep.join(sparts)
        if lay == "TRS_desc":
            trsep = " " if plain else rng.choice([" ", "\n", ", "])
            gparts.append(tr + trsep + body)
        elif lay == "TR_desc_S":
            trsep = " " if plain else rng.choice([" ", "\n", ": "])
            gparts.append(tr + trsep + body)
        elif lay == "desc_STR":
            conn = str_connector or (", " if plain else rng.choice([", ", ", ", " of ", " in ", " "]))
            last = blocks[g["secs"][-1]["block"]]
            gparts.append(body + conn + tr)
        else:  # S_desc_TR
            conn = str_connector or (", " if plain else rng.choice([", ", " of "]))
            last = blocks[g["secs"][-1]["block"]]
            if conn == " of " and last.strip().upper().endswith("ALL"):
                conn = ", "
            gparts.append(body + conn + tr)
    gsep = ", " if plain else rng.choice(GSEP)
    return gsep.join(gparts)


_WS = re.compile(r"\s+")


def norm_ws(s):
    return _WS.sub(" ", s).strip()


def project_tracts(tracts, doc, ws_insensitive=False):
    tr_by_short = {R.tr_short(g["tr"]): g["tr"] for g in doc["groups"]}
    if ws_insensitive:
        by_text = {norm_ws(t): b for b, t in doc["blocks"].items()}
    else:
        by_text = {t: b for b, t in doc["blocks"].items()}
    out = []
    for t in tracts:
        desc = norm_ws(t.desc) if ws_insensitive else t.desc
        out.append({"tr": tr_by_short.get(t.twprge, 0),
                    "sec": int(t.sec) if isinstance(t.sec, str) and t.sec.isdigit() else -1,
                    "block": by_text.get(desc, -1)})
    return out


_PRETTY_TR = re.compile(r"T(\d{1,3})([NS])-R(\d{1,3})([EW])")
_PRETTY_SEC = re.compile(r"Sec (\d{1,3}): ?(.*)", re.S)


def lex_pretty(text, doc, word_sec="Sec "):
    """TractList.pretty_desc() read line by line into the lines of spec/PlssDoc.tla :: PrettyLines
    ([k, tr, sec, block]); continuation lines of a multi-line description are folded back (their justification
    removed); anything unexpected is a line of kind "?"."""
    tr_by_text = {R.tr_canon(g["tr"]): g["tr"] for g in doc["groups"]}
    by_text = {norm_ws(t): b for b, t in doc["blocks"].items()}
    items = []
    sec_rx = _PRETTY_SEC if word_sec == "Sec " else re.compile(re.escape(word_sec) + r"(\d{1,3}): ?(.*)", re.S)
    for line in (text or "").split("\n"):
        m = _PRETTY_TR.fullmatch(line)
        if m:
            items.append(["tr", line, None])
        elif sec_rx.fullmatch(line):
            m = sec_rx.fullmatch(line)
            items.append(["sec", int(m.group(1)), m.group(2)])
        elif items and items[-1][0] == "sec" and (line[:1] in (" ", "\t") or _PRETTY_TR.fullmatch(line) is None):
            items[-1][2] += "\n" + line
        else:
            items.append(["?", line, None])
    out, cur = [], 0
    for k, a, b in items:
        if k == "tr":
            cur = tr_by_text.get(a, -1)
            out.append({"k": "tr", "tr": cur, "sec": 0, "block": 0})
        elif k == "sec":
            out.append({"k": "sec", "tr": cur, "sec": a, "block": by_text.get(norm_ws(b), -1)})
        else:
            out.append({"k": "?", "tr": -1, "sec": -1, "block": -1})
    return out
