"""Shared part of the C03 / C04 / C09 / C10 / C11 drivers: cases from the
token-level model (spec/PlssDesc.tla), run on the real PLSSDesc, judged by
spec/PlssDescTrace.tla with the clause of the selected property."""
from . import core, plsstok

ALL_CONFIGS = ["default", "segment", "secwithin", "seg_within", "required", "cautious", "seg_required", "within_req",
               "f_copy_all", "f_copy_seg", "f_TRS_desc", "f_desc_STR", "f_S_desc_TR", "f_TR_desc_S", "f_TRS_seg"]
MODEL_INVS = ["DeduceTotal", "LackingMeansCopyAll", "CopyAllMeansFallBack", "AcceptedAreSections",
              "ColonFreeLayoutsAcceptAll", "S_desc_TR_NeedsLeadingSection"]
NO_X = {"forced_copy_all": False, "must_fall_back": False, "both_found": True}


def model_cases(ctx, maxtok, configs, keep=1.0, check_model=True, prefix="t", alphabet="full", minlen=1):
    base = {"MaxTok": maxtok, "Configs": set(configs), "Alphabet": alphabet}
    if check_model:
        ctx.tlc("PlssDesc", dict(base, Fault="none", EmitCases=False), invariants=MODEL_INVS)
        ctx.tlc("PlssDesc", dict(base, MaxTok=2, Fault="none", EmitCases=False), invariants=MODEL_INVS, coverage=True,
                count=False)
        ctx.require_actions(["Choose"])
        ctx.tlc("PlssDesc", dict(base, MaxTok=3, Fault="never_TR_desc_S", EmitCases=False),
                invariants=["S_desc_TR_NeedsLeadingSection", "ColonFreeLayoutsAcceptAll", "FaultProbe"],
                expect_violation="never_TR_desc_S", count=False)
    res = ctx.tlc("PlssDesc", dict(base, Fault="none", EmitCases=True), invariants=["EmitCase"], workers=1, count=False,
                  timeout=3000)
    cases = []
    for i, c in enumerate(res.cases):
        if len(c["toks"]) < minlen or (keep < 1.0 and ctx.rng.random() > keep):
            continue
        text, markers = plsstok.render_tokens(c["toks"], ctx.rng, newline=(i % 5 == 0))
        args = {"text": text, "markers": markers, "source": "SRC-%d" % (i % 7)}
        args.update(plsstok.config_args(c["cfg"], ctx.rng))
        cases.append({"id": "%s%d" % (prefix, i), "kind": "plss", "origin": "PlssDesc.tla",
                      "abs": {"toks": c["toks"], "cfgname": c["cfgname"], "x": c["x"], "deduced": c["deduced"]},
                      "args": args})
    if not cases:
        raise core.MachineryFailure("PlssDesc emitted no cases")
    return cases


def judge(ctx, prop, cases, obs=None):
    """Validate the observations of the cases for property `prop`; returns the fails."""
    if obs is None:
        obs = ctx.impl_map("plss", cases)
    recs, by_id = [], {}
    for c in cases:
        o = obs.get(c["id"])
        if o is None:
            continue
        by_id[c["id"]] = c
        o2 = {k: v for k, v in o.items() if k not in ("raw", "exc_msg")}
        recs.append({"id": c["id"], "x": c["abs"].get("x", NO_X), "markers": c["args"].get("markers") or [], "o": o2})
        ctx.nontrivial.add((c["args"]["text"], c["args"].get("config"), c["args"].get("layout"),
                            c["args"].get("layout_channel"), repr(c["args"].get("kw"))))
    fails, _ = ctx.validate("PlssDescTrace", recs, {"Prop": prop}, invariants=("Verdict",))
    for cid, clause, *_ in fails:
        c = by_id[cid]
        ctx.violation(c, clause, {"observed": obs[cid].get("raw"), "exc": obs[cid].get("exc"),
                                  "exc_msg": obs[cid].get("exc_msg")})
    for c in cases[:3]:
        ctx.sample({"args": c["args"], "observed": obs.get(c["id"], {}).get("raw")})
    return fails, obs


def generic_replay(ctx, prop, payload):
    case = payload["case"]
    fails, _ = judge(ctx, prop, [case])
    if fails:
        print("VIOLATION property=%s replay=(replayed) clause=%s" % (prop, fails[0][1]))
        return 1
    print("replayed case passes on the current tree: %r" % (case["args"],))
    return 0


WALK_CONFIGS = ALL_CONFIGS
WALK_INVS = ["Conservation", "AtLeastOneTractW", "FallBackIsWhole", "MustFallBackAgrees", "ChunksDisjoint"]


def walk_conformance(ctx, maxtok=3, keep=1.0, alphabet="full", faults=True):
    """Design check of the marker-walk model (PlssWalk.tla) + replay of every terminal state into the real
    PLSSDesc; disagreements are DRIFT (model != code), never a verdict."""
    base = {"MaxTok": maxtok, "Configs": set(WALK_CONFIGS), "Alphabet": alphabet}
    ctx.tlc("PlssWalk", dict(base, Fault="none", EmitCases=False), invariants=WALK_INVS, spec="WSpec")
    if faults:
        ctx.tlc("PlssWalk", dict(base, MaxTok=2, Fault="none", EmitCases=False), invariants=WALK_INVS, spec="WSpec",
                coverage=True, count=False)
        ctx.require_actions(["WChoose", "Segment", "FindMatches", "Prime", "WalkStep", "AfterWalk", "SecWithin", "FallBack",
                             "EndChunk", "Top", "Finish"])
        ctx.tlc("PlssWalk", dict(base, Fault="drop_unused", EmitCases=False), invariants=WALK_INVS, spec="WSpec",
                expect_violation="drop_unused", count=False)
        ctx.tlc("PlssWalk", dict(base, Fault="double_handoff", EmitCases=False), invariants=WALK_INVS, spec="WSpec",
                expect_violation="double_handoff", count=False)
    res = ctx.tlc("PlssWalk", dict(base, Fault="none", EmitCases=True), invariants=["EmitWalk"], spec="WSpec", workers=1,
                  count=False, timeout=3000)
    cases = []
    for i, c in enumerate(res.cases):
        if keep < 1.0 and ctx.rng.random() > keep:
            continue
        info = {}
        text, markers = plsstok.render_tokens(c["toks"], ctx.rng, info=info)
        args = {"text": text, "markers": markers, "source": "SRC-1", "num2tok": info.get("num2tok", {})}
        args.update(plsstok.config_args(c["cfg"], ctx.rng))
        seccount = [info.get("seccount", {}).get(j, 0) for j in range(1, len(c["toks"]) + 1)]
        cases.append({"id": "w%d" % i, "kind": "plss_walk", "abs": {"model": c, "seccount": seccount}, "args": args})
    obs = ctx.impl_map("plss_walk", cases)
    recs = []
    by_id = {}
    for c in cases:
        o = obs.get(c["id"])
        if o is None:
            continue
        by_id[c["id"]] = c
        m = c["abs"]["model"]
        recs.append({"id": c["id"],
                     "model": {"lay": m["lay"], "fell": m["fell"], "comps": m["comps"], "unused": m["unused"], "eflags": m["eflags"],
                               "wflags": m.get("wflags", [])},
                     "seccount": c["abs"]["seccount"] or [0],
                     "obs": {k: o.get(k) for k in ("exc", "lay", "tracts", "unused", "eflags", "wflags")}})
    ctx.validate("PlssWalkTrace", recs, {}, invariants=("Drift",))
    kinds = {}
    for cid, what in [(d[0], d[1] if len(d) > 1 else "?") for d in ctx.last_drift_details]:
        kinds[what] = kinds.get(what, 0) + 1
        c = by_id[cid]
        ctx.add_drift(1, {"what": what, "text": c["args"]["text"], "config": c["args"].get("config"),
                          "layout": c["args"].get("layout"), "model": {k: c["abs"]["model"].get(k) for k in ("lay", "fell", "comps", "unused", "eflags", "wflags")},
                          "observed": {k: obs[cid].get(k) for k in ("lay", "raw", "raw_e", "raw_w", "wflags")}})
    ctx.notes["walk_model_cases"] = ctx.notes.get("walk_model_cases", 0) + len(recs)
    ctx.notes["walk_model_drift_kinds"] = kinds
    return cases, obs
