"""Seeded random text for the totality-style properties (C03, C09, C10, C11):
token soup of PLSS vocabulary, truncations, shuffles, unicode, empty text,
with random valid configurations.  (R6: no Twp/Rge repeated more than four
times, no long dot runs - those inputs belong to the unclaimed C16.)"""
from . import render as R

VOCAB = [
    "T154N-R97W", "T155N-R97W", "Township 154 North, Range 97 West", "T7S-R12E", "T154-R97W", "T154N-R97", "154N-97W",
    "Twp. 23 N., Rge. 101 W.", "TIS4N-R97W", "T2N R2W", "T154N", "R97W", "T15|N-R97W", "Tl5]N-R9|W", "T1o4N-R97W",
    "T0N-R5W", "T12S-R0E", "Township 0 North, Range 0 West", "T00N-R000W",       # (township / range 0)
    "T154N-R9iW", "to sole", "Township I5l North, Range OO7 West", "T|5|N-R|7W",
    "Sec", "Sec.", "Section", "Sections", "§", "Sec 14", "Sec 14:", "Section 1 - 3:", "Secs 5, 6 and 9", "Sec 100", "Sec 0",
    "Section 15, T154N-R97W", "of Section 4 of", "said Section", "within Section 9",
    "Sections 9 - 7, 5 - 3:", "Secs 12 thru 10 and 6 thru 4", "Sec 3 - 1",
    ":", ",", ";", "-", "–", ".", "(", ")", "[", "]", "/", "&", "and", "of", "the", "in", "through", "thru", "to",
    "NE/4", "NE¼", "N½", "N/2", "SW/4NE/4", "S2N2", "Northeast Quarter", "North Half of the South Half", "ALL", "All of",
    "Lot 1", "Lots 1 - 3", "Lots 1, 2, 5", "Lot 4 (38.12)", "Lot 4 [38.12]", "N/2 of Lot 1", "L1", "Lots 5 - 3", "Lot",
    # (lot lists that go on after a divided lot, acreages on the later lots)
    "Lot 2(40.00)", "Lots 5(38.20), 6", "N/2 of Lots 1 - 3 and Lots 5(38.20), 6", "E/2SW/4 of Lot 7, and Lot 8(39.21)", ", Lot",
    "less and except", "except", "insofar as", "including", "from the surface to the base of", "wellbore", "well",
    "limited to depths", "That part lying north of the river", "Beginning at a point", "thence north 40 rods",
    "5th P.M.", "of the 6th Principal Meridian", "1", "14", "97", "154", "1000", "0", "38.12",
    "Northeast", "North East", "South-West", "Southwest", "East Half", "West Half of the", "N/2 of the", "E½", "S2", "NE", "SW",
    "Quarter", "Half", "One Quarter", "1/4", "1/2", "of the", "\r\n", "\r",
    "\n", "\n\n", "\t", "  ", "½", "¼", "é", "١٤", "ＳＥＣ", " ", "​", "QXJVZK", "XX", "___z", "XXXz",
]
LAYOUTS = ["TRS_desc", "desc_STR", "S_desc_TR", "TR_desc_S", "copy_all"]
SAMPLES = [
    "T154N-R97W Sec 14: NE/4, Sec 15: W/2",
    "T155N-R97W Sec 1: SW/4, T154N-R97W Sec 20: W/2, Sec 24 - 27: S/2, Sec 28: N/2",
    "Sec 1: SW/4 of T155N-R97W, Sec 20: W/2, Sec 24 - 27: S/2, Sec 28: N/2 of T154N-R97W",
    "SW/4 of Sec 1, T155N-R97W, W/2 of Sec 20, S/2 of Sec 24 - 27: N/2 of Sec 28, T154N-R97W",
    "T155N-R97W SW/4 of Sec 1, T154N-R97W W/2 of Sec 20, S/2 of Sec 24 - 27, N/2 of Sec 28",
    "That part of the NE/4 of Sec 13 - 15, T154N-R97W lying within RoW",
    "Township 154 North, Range 97 West of the 5th P.M.\nSection 14: Lots 1 - 4, S/2N/2, less and except the wellbore",
]


def rand_config(rng, for_tract=False):
    parts = []
    if not for_tract:
        if rng.random() < 0.3:
            parts.append(rng.choice(LAYOUTS))
        for name in ("segment", "sec_within", "ocr_scrub"):
            if rng.random() < 0.25:
                parts.append(name)
        r = rng.random()
        if r < 0.15:
            parts.append("sec_colon_required")
        elif r < 0.3:
            parts.append("sec_colon_cautious")
    for name in ("clean_qq", "parse_qq", "break_halves", "suppress_lot_divs"):
        if rng.random() < 0.3:
            parts.append(name)
    r = rng.random()
    if r < 0.2:
        parts.append("qq_depth.%d" % rng.randint(0, 3))            # (0 is accepted: nothing deeper than the section itself)
    elif r < 0.5:
        mn = rng.randint(0, 3)
        parts.append("qq_depth_min.%d" % mn)
        if rng.random() < 0.5:
            parts.append("qq_depth_max.%d" % rng.randint(mn, 4))
    if rng.random() < 0.2:
        parts.append(rng.choice(["n", "s"]))
    if rng.random() < 0.2:
        parts.append(rng.choice(["e", "w"]))
    rng.shuffle(parts)
    if not parts:
        return None if rng.random() < 0.9 else rng.choice(["", " ", "\n"])      # (an empty / blank config text is no setting)
    # "settings separated by comma (or semicolon), spaces optional": blanks and line breaks anywhere between the names
    sep = rng.choice([",", ",", ",", ", ", " , ", ";", ",\n", " ;  "])
    pad = rng.choice(["", "", "", " ", "\n", "\t"])
    return rng.choice(["", "", " "]) + sep.join(parts) + pad


def rand_text(rng):
    r = rng.random()
    if r < 0.02:
        return ""
    if r < 0.15:
        s = rng.choice(SAMPLES)
        if rng.random() < 0.5:
            return s[:rng.randint(0, len(s))]                      # truncation
        words = s.split(" ")
        rng.shuffle(words)
        return " ".join(words)                                       # shuffle
    n = rng.randint(1, 12)
    toks, tr_seen = [], 0
    for _ in range(n):
        w = rng.choice(VOCAB)
        if w.startswith(("T1", "T7", "Township", "Twp", "T2", "154N")):
            tr_seen += 1
            if tr_seen > 3:
                continue
        if w == "." and toks and toks[-1] == ".":
            continue
        toks.append(w)
    sep = rng.choice([" ", " ", " ", " ", "", "\n", "\r\n"])
    return sep.join(toks)
