#!/usr/bin/env python3
"""Reproductions of the genuine defects found on the pinned tree (DESIGN.md §8).
Prints one line per defect: DEFECT (still reproduces) or ok.  PYTRS_REPO selects the tree."""
import os, sys, io, csv, tempfile
sys.path.insert(0, os.environ.get("PYTRS_REPO", "/repo"))
sys.dont_write_bytecode = True
import pytrs

def t(name, fn):
    try:
        bad = fn()
    except Exception as e:
        bad = "%s: %s" % (type(e).__name__, str(e)[:80])
    print("%-34s %s" % (name, ("DEFECT  " + str(bad)) if bad else "ok"))

def d1():
    pytrs.PLSSDesc('T154N-R97W Section NE/4'); pytrs.PLSSDesc('T154N-R97W Sec 14 NE/4', config='sec_colon_required')
def d2():
    a = pytrs.PLSSDesc('T154N-R97W Sec 14: NE/4, Sec 15: W/2', layout='copy_all')
    b = pytrs.PLSSDesc('T154N-R97W Sec 14: NE/4, Sec 15: W/2', config='copy_all')
    if len(a.tracts) != 1 or len(b.tracts) != 1: return "layout ignored: %d/%d tracts" % (len(a.tracts), len(b.tracts))
def d3():
    d = pytrs.PLSSDesc('NE/4 of Section, T154N-R97W')
    if len(d.tracts) != 1: return "%d tracts" % len(d.tracts)
def d4():
    d = pytrs.PLSSDesc('T154N-R97W Sec 14 NE/4', config='sec_colon_cautious')
    bad = [f for f in d.w_flags if not isinstance(f, str)]
    d2 = pytrs.PLSSDesc('T154N-R97W Sec 14: NE/4 of Sec 4 of T155N-R97W')
    bad2 = [l for l in d2.w_flag_lines if not isinstance(l, tuple)]
    if bad or bad2: return "ill-typed %r %r" % (bad[:1], bad2[:1])
def d5():
    r = [pytrs.TRS('1154n97w14').trs, pytrs.TRS('154n97w100').trs, pytrs.TRS.from_twprgesec('asdf', 97, 1).trs]
    if r != ['XXXzXXXzXX', 'XXXzXXXzXX', 'XXXz97w01']: return r
def d6():
    d = pytrs.PLSSDesc('T154N-R97W Sec 14 NE/4', wait_to_parse=True) if False else pytrs.PLSSDesc('T154N-R97W Sec 14 NE/4')
    a = d.parse(commit=False, sec_colon_required=True)
    e = pytrs.PLSSDesc('T154N-R97W Sec 14: NE', parse_qq=True)
    e.parse(clean_qq=True, parse_qq=True)
    if a[0].desc == "NE/4": return "sec_colon_required kw ignored"
    if not e.tracts[0].qqs: return "clean_qq kw does not reach tracts"
def d7():
    t_ = pytrs.Tract('Lot 1, Lot 1', parse_qq=True); n = len(t_.w_flags); t_.parse()
    if len(t_.w_flags) != n: return "flags %d -> %d" % (n, len(t_.w_flags))
def d8a():
    tr = pytrs.Tract('NE/4', '154n97w14')
    try:
        l = pytrs.TractList([tr, 'foo'])
    except TypeError:
        return None
    return "silently built list of %d from 2 elements" % len(l)
def d8b():
    tr = pytrs.Tract('NE/4', '154n97w14')
    try:
        pytrs.TractList.from_multiple(tr, 'foo')
    except TypeError:
        return None
def d8c():
    l = pytrs.TRSList(['154n97w14']); l[0] = '154n97w15'
    if not isinstance(l[0], pytrs.TRS): return "raw %r stored" % type(l[0]).__name__
def d8d():
    d = pytrs.PLSSDesc('T154N-R97W Sec 14: NE/4, Sec 15: W/2')
    d.tracts.group_by_nested(['twp', 'sec'])
def d9():
    d = pytrs.PLSSDesc('T154N-R97W Sec 14: Lots 1, 2, 2, NE/4', parse_qq=True)
    from pytrs.tractwriter import TractWriter
    with tempfile.TemporaryDirectory() as td:
        d.tracts_to_csv(['trs', 'ilots', 'w_flag_lines'], os.path.join(td, 'a.csv'), 'w')
        tw = TractWriter(['trs', 'ilots'], os.path.join(td, 'b.csv'), 'w'); tw.write(d); tw.close()
def d14():
    d = pytrs.PLSSDesc('T. 155 N., R. 98 W. NE/4 of Sec 30; T155N-R98W S/2 of Sec 23; T. 155 N., R. 98 W.: ALL of Sect. 11')
    if d.tracts[-1].desc != 'ALL': return "last block %r instead of 'ALL'" % d.tracts[-1].desc
    e = pytrs.PLSSDesc('T154N-R9 Sec 1: NE/4, T154N-R97W Sec 2: NW/4', config='w')
    if e.tracts[-1].twprge != '154n97w': return "second Twp/Rge corrupted to %r" % e.tracts[-1].twprge
def d15():
    d = pytrs.PLSSDesc('less and except the wellbore, T154N-R97W Sec 14: NE/4', config='segment')
    if 'less_except' not in d.w_flags or 'well' not in d.w_flags: return "w_flags %r" % d.w_flags
def d16():
    d = pytrs.PLSSDesc('T154N-R97W Sec 14: NE/4 development')
    if [(t.trs, t.desc) for t in d.tracts] != [('154n97w14', 'NE/4 development')]:
        return "tracts %r, preprocessed %r" % ([(t.trs, t.desc) for t in d.tracts], d.pp_desc)
for n, f in [("1 C03 None in parse_chunk", d1), ("2 C11/C13 forced layout ignored", d2), ("3 C11 double fallback tract", d3),
             ("4 C10 ill-typed flags", d4), ("5 C12 unanchored/lowercased TRS", d5), ("6 C13 parse kwargs", d6),
             ("7 C14 re-parse doubles flags", d7), ("8a C18 silent skip", d8a), ("8b C18 from_multiple str", d8b),
             ("8c C18 TRSList setitem", d8c), ("8d C18 group_by_nested list", d8d), ("9 C19 csv ilots/flag_lines", d9),
             ("14 C01 replace-all in sub_scrubber", d14), ("15 C10 segment: wording outside chunks", d15),
             ("16 C04 'pm' inside a word read as P.M.", d16)]:
    t(n, f)
