#!/bin/sh
# selftest/binding.sh [ids...] : demonstrate that the trace specifications are bound to what the implementation returns.
# Every check is run in binding mode (VERIF_BINDING=<rate>): before TLC sees the recorded observations, one field of a
# share of the records is corrupted (a boolean flipped, an integer incremented, the last element of a list dropped,
# exc 'none' replaced by an exception name).  A record counts as rejected when the trace specification reports a
# failed clause or a drift for it.  No evidence or replay file is written in this mode.
cd /verif || exit 2
ids="${*:-C01 C02 C03 C04 C05 C06 C07 C08 C09 C10 C11 C12 C13 C14 C15 C17 C18 C19 C20}"
rc=0
for c in $ids; do
  out=$(VERIF_BINDING="${RATE:-0.05}" ./check $c --tier quick 2>&1); e=$?
  line=$(printf '%s\n' "$out" | grep '^BINDING' | tail -1)
  if [ -z "$line" ]; then line="BINDING property=$c (no verdict) $(printf '%s\n' "$out" | grep -m1 'MACHINERY FAILURE' | cut -c1-200)"; fi
  echo "$line exit=$e"
  [ $e -eq 0 ] || rc=1
done
exit $rc
