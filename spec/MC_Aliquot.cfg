SPECIFICATION Spec
CONSTANTS
  MaxLen = 3
  DMins = {1, 2, 3}
  DMaxs = {0, 1, 2, 3, 4}
  GridExp = 8
  Fault = "none"
  EmitCases = FALSE
INVARIANT PassPreservesRegion
INVARIANT FixpointQuick
INVARIANT Standardised
INVARIANT TruncationIsPerAxisCap
INVARIANT ModelMeetsC02
INVARIANT EmitCase
CHECK_DEADLOCK FALSE
