------------------------------ MODULE Aliquot ------------------------------
(***************************************************************************)
(* Aliquot geometry and the subdivision pipeline of pyTRS                  *)
(* (pytrs/parser/tract/aliquot_parse.py :: parse_aliquot).                 *)
(*                                                                         *)
(* Part 1 (denotation): a chain of aliquot components, read right to left, *)
(*   halves a square section along its axes; Region(chain, dmax) is the    *)
(*   rectangle the chain describes (ignoring, when dmax > 0, halvings      *)
(*   beyond dmax on each axis).  Tiles(R, pieces) and DepthOK are the      *)
(*   predicates property C02 talks about.                                  *)
(* Part 2 (implementation-shaped model): one action per step of            *)
(*   parse_aliquot: Reverse, PassBack, Combine (iterated to a fixed        *)
(*   point), Truncate, Subdivide (per position depth rule + table),        *)
(*   Rebuild.                                                              *)
(* TLC checks (MC_Aliquot.cfg) that the model meets C02 for every chain    *)
(* in the bound; EmitCase prints each terminal state as a JSON test case.  *)
(***************************************************************************)
EXTENDS Naturals, Integers, Sequences, FiniteSets, TLC, Json

CONSTANTS MaxLen,      \* maximal number of components in a chain
          DMins,       \* set of qq_depth_min values
          DMaxs,       \* set of qq_depth_max values, 0 = None
          GridExp,     \* the section is a square of side 2^GridExp
          Fault,       \* "none" or the name of an injected design fault
          EmitCases    \* TRUE: print one CASE line per terminal state

Halves   == {"N", "S", "E", "W"}
Quarters == {"NE", "NW", "SE", "SW"}
Comps    == Halves \cup Quarters
NS       == {"N", "S"}
EW       == {"E", "W"}
QuarterSeq == <<"NE", "NW", "SE", "SW">>

RECURSIVE Pow2(_)
Pow2(n) == IF n = 0 THEN 1 ELSE 2 * Pow2(n - 1)
G == Pow2(GridExp)

---------------------------------------------------------------------------
(* Part 1: geometry *)

Rect(x0, x1, y0, y1) == [x0 |-> x0, x1 |-> x1, y0 |-> y0, y1 |-> y1]
Section == Rect(0, G, 0, G)
Area(r) == (r.x1 - r.x0) * (r.y1 - r.y0)
Inside(a, b) == a.x0 >= b.x0 /\ a.x1 <= b.x1 /\ a.y0 >= b.y0 /\ a.y1 <= b.y1
Disjoint(a, b) == a.x1 <= b.x0 \/ b.x1 <= a.x0 \/ a.y1 <= b.y0 \/ b.y1 <= a.y0

HalveN(r) == [r EXCEPT !.y0 = (r.y0 + r.y1) \div 2]
HalveS(r) == [r EXCEPT !.y1 = (r.y0 + r.y1) \div 2]
HalveE(r) == [r EXCEPT !.x0 = (r.x0 + r.x1) \div 2]
HalveW(r) == [r EXCEPT !.x1 = (r.x0 + r.x1) \div 2]

\* which letters a component applies on the north/south and east/west axis
NSLetter(c) == IF c \in {"N", "NE", "NW"} THEN "N"
               ELSE IF c \in {"S", "SE", "SW"} THEN "S" ELSE "-"
EWLetter(c) == IF c \in {"E", "NE", "SE"} THEN "E"
               ELSE IF c \in {"W", "NW", "SW"} THEN "W" ELSE "-"

MkQ(ns, ew) == CASE ns = "N" /\ ew = "E" -> "NE" [] ns = "N" /\ ew = "W" -> "NW"
                 [] ns = "S" /\ ew = "E" -> "SE" [] ns = "S" /\ ew = "W" -> "SW"

\* state of a right-to-left walk: rectangle + halvings done per axis
ApplyComp(st, c, dmax) ==
  LET doY == NSLetter(c) # "-" /\ (dmax = 0 \/ st.ny < dmax)
      doX == EWLetter(c) # "-" /\ (dmax = 0 \/ st.nx < dmax)
      r1  == IF doY THEN (IF NSLetter(c) = "N" THEN HalveN(st.r) ELSE HalveS(st.r))
             ELSE st.r
      r2  == IF doX THEN (IF EWLetter(c) = "E" THEN HalveE(r1) ELSE HalveW(r1))
             ELSE r1
  IN [r |-> r2, ny |-> st.ny + (IF doY THEN 1 ELSE 0),
                nx |-> st.nx + (IF doX THEN 1 ELSE 0)]

RECURSIVE Walk(_, _, _, _)
\* components k..1 of chain (text order: chain[1] is the smallest division)
Walk(chain, k, st, dmax) ==
  IF k = 0 THEN st ELSE Walk(chain, k - 1, ApplyComp(st, chain[k], dmax), dmax)

\* "ALL" is the whole section and is only ever a chain by itself
StripAll(chain) == SelectSeq(chain, LAMBDA c : c # "ALL")
Region(chain, dmax) ==
  LET ch == StripAll(chain)
  IN Walk(ch, Len(ch), [r |-> Section, ny |-> 0, nx |-> 0], dmax).r

\* A piece is a sequence of tokens in text order, halves written "N2" etc.
HalfTok  == {"N2", "S2", "E2", "W2"}
TokComp(t) == CASE t = "N2" -> "N" [] t = "S2" -> "S" [] t = "E2" -> "E"
                [] t = "W2" -> "W" [] OTHER -> t
IsTok(t) == t \in HalfTok \/ t \in Quarters \/ t = "ALL"
PieceChain(p) == [i \in 1..Len(p) |-> TokComp(p[i])]
PieceRect(p) == Region(PieceChain(p), 0)

RECURSIVE SumArea(_, _)
SumArea(ps, k) == IF k = 0 THEN 0 ELSE Area(PieceRect(ps[k])) + SumArea(ps, k - 1)

AllInside(R, ps)  == \A i \in 1..Len(ps) : Inside(PieceRect(ps[i]), R)
AllDisjoint(ps)   == \A i, j \in 1..Len(ps) : i < j => Disjoint(PieceRect(ps[i]), PieceRect(ps[j]))
AreaAddsUp(R, ps) == SumArea(ps, Len(ps)) = Area(R)
Tiles(R, ps) == AllInside(R, ps) /\ AllDisjoint(ps) /\ AreaAddsUp(R, ps)

\* depth predicates on one piece (largest components are at the right end)
MinDepthOK(p, dmin) ==
  /\ Len(p) >= dmin \/ (dmin = 0)
  /\ \A i \in 1..Len(p) : i > Len(p) - dmin => p[i] \in Quarters
MaxDepthOK(p, dmax) == dmax = 0 \/ Len(p) <= dmax
NoHalves(p) == \A i \in 1..Len(p) : p[i] \notin HalfTok
DepthOK(ps, dmin, dmax, bh) ==
  \A i \in 1..Len(ps) :
     /\ MinDepthOK(ps[i], dmin)
     /\ MaxDepthOK(ps[i], dmax)
     /\ (bh => NoHalves(ps[i]))

WellFormedPieces(ps) == \A i \in 1..Len(ps) : Len(ps[i]) >= 1 /\ \A j \in 1..Len(ps[i]) : IsTok(ps[i][j])

\* The whole of property C02 for one (input, output) pair.
C02Holds(chain, dmin, dmax, bh, ps) ==
  /\ WellFormedPieces(ps)
  /\ Len(ps) >= 1
  /\ Tiles(Region(chain, dmax), ps)
  /\ DepthOK(ps, dmin, dmax, bh)

\* name of the first failing clause (for trace verdicts)
C02Clause(chain, dmin, dmax, bh, ps) ==
  IF ~WellFormedPieces(ps) THEN "malformed_piece"
  ELSE IF Len(ps) = 0 THEN "no_pieces"
  ELSE IF ~AllInside(Region(chain, dmax), ps) THEN "piece_outside_region"
  ELSE IF ~AllDisjoint(ps) THEN "pieces_overlap"
  ELSE IF ~AreaAddsUp(Region(chain, dmax), ps) THEN "area_mismatch"
  ELSE IF \E i \in 1..Len(ps) : ~MinDepthOK(ps[i], dmin) THEN "below_min_depth"
  ELSE IF \E i \in 1..Len(ps) : ~MaxDepthOK(ps[i], dmax) THEN "beyond_max_depth"
  ELSE IF bh /\ \E i \in 1..Len(ps) : ~NoHalves(ps[i]) THEN "half_with_break_halves"
  ELSE "ok"

---------------------------------------------------------------------------
(* Part 2: the pipeline of parse_aliquot, action by action *)

Rev(s) == [i \in 1..Len(s) |-> s[Len(s) + 1 - i]]

\* pass_back_halves: works on the list reversed (= text order), one sweep
RECURSIVE PBSweep(_, _)
PBSweep(r, i) ==
  IF i >= Len(r) THEN r
  ELSE LET aq1 == r[i]   aq2 == r[i + 1]
       IN IF ~(aq2 \in Halves /\ aq1 \in Quarters) THEN PBSweep(r, i + 1)
          ELSE LET c1 == NSLetter(aq1)  c2 == EWLetter(aq1)
                   n2 == IF aq2 \in NS THEN MkQ(aq2, c2) ELSE MkQ(c1, aq2)
                   n1 == IF aq2 \in NS THEN c1 ELSE c2
               IN PBSweep([r EXCEPT ![i] = n1, ![i + 1] = n2], i + 1)
PassBackHalves(cl) == Rev(PBSweep(Rev(cl), 1))

SameAxis(a, b) == (a \in NS /\ b \in NS) \/ (a \in EW /\ b \in EW)
RECURSIVE CCSweep(_, _, _)
CCSweep(cl, i, acc) ==
  IF i > Len(cl) THEN acc
  ELSE IF i = Len(cl) THEN Append(acc, cl[i])
  ELSE LET aq1 == cl[i]  aq2 == cl[i + 1]
       IN IF aq1 \in Halves /\ aq2 \in Halves /\ ~SameAxis(aq1, aq2)
          THEN CCSweep(cl, i + 2, Append(acc, IF aq1 \in EW THEN MkQ(aq2, aq1) ELSE MkQ(aq1, aq2)))
          ELSE CCSweep(cl, i + 1, Append(acc, aq1))
CombineHalves(cl) ==
  IF Fault = "combine_same_axis"
  THEN \* injected fault: also fuses N/2 S/2 style neighbours
       LET RECURSIVE F(_, _, _)
           F(c, i, acc) == IF i > Len(c) THEN acc
                           ELSE IF i = Len(c) THEN Append(acc, c[i])
                           ELSE IF c[i] \in Halves /\ c[i + 1] \in Halves
                                   /\ c[i] \in NS /\ c[i + 1] \in EW
                                THEN F(c, i + 2, Append(acc, MkQ(c[i], c[i + 1])))
                                ELSE IF c[i] \in Halves /\ c[i + 1] \in Halves
                                        /\ c[i] \in EW /\ c[i + 1] \in NS
                                THEN F(c, i + 2, Append(acc, MkQ(c[i + 1], c[i])))
                                ELSE IF c[i] = "N" /\ c[i + 1] = "S"
                                THEN F(c, i + 2, Append(acc, "N"))
                                ELSE F(c, i + 1, Append(acc, c[i]))
       IN F(cl, 1, <<>>)
  ELSE CCSweep(cl, 1, <<>>)

\* QQ_SUBDIVIDE_DEFINITIONS
SubdivTable(c) ==
  CASE c = "ALL" -> QuarterSeq
    [] c = "N" -> (IF Fault = "table_swap" THEN <<"NE", "SW">> ELSE <<"NE", "NW">>)
    [] c = "S" -> <<"SE", "SW">>
    [] c = "E" -> <<"NE", "SE">>
    [] c = "W" -> <<"NW", "SW">>

\* rebuild_aliquots: first list outermost, strings concatenated deepest first
RECURSIVE Rebuild(_)
Rebuild(nested) ==
  IF Len(nested) = 0 THEN <<>>
  ELSE IF Len(nested) = 1 THEN nested[1]
  ELSE LET A == nested[1]
           R == Rebuild(Tail(nested))
           RECURSIVE Outer(_)
           Outer(k) == IF k > Len(A) THEN <<>>
                       ELSE [j \in 1..Len(R) |-> R[j] \o A[k]] \o Outer(k + 1)
       IN Outer(1)

Tok(c) == CASE c = "N" -> "N2" [] c = "S" -> "S2" [] c = "E" -> "E2"
            [] c = "W" -> "W2" [] OTHER -> c
RECURSIVE Divided(_, _)
\* the nested list subdivide_aliquot builds in `depth` rounds
Divided(nested, depth) ==
  IF depth = 0 THEN nested
  ELSE LET last == nested[Len(nested)]
       IN IF last[1][1] \in Halves \cup {"ALL"} /\ Len(last[1]) = 1
          THEN Divided(Append(SubSeq(nested, 1, Len(nested) - 1),
                              [j \in 1..Len(SubdivTable(last[1][1])) |-> <<SubdivTable(last[1][1])[j]>>]),
                       depth - 1)
          ELSE Divided(Append(nested, [j \in 1..4 |-> <<QuarterSeq[j]>>]), depth - 1)
\* pieces are token sequences; a raw component is a 1-sequence <<comp>>
SubdivideAliquot(c, depth) ==
  IF depth <= 0 THEN << <<Tok(c)>> >>
  ELSE Rebuild(Divided(<< << <<c>> >> >>, depth))

DepthFor(i, c, n, dmin, bh) ==
  LET d0 == IF i = dmin THEN 1
            ELSE IF i = n /\ n < dmin THEN dmin - i + 1
            ELSE IF c \in Halves /\ (i < dmin \/ bh) THEN 1
            ELSE 0
  IN IF Fault = "depth_off_by_one" /\ i = dmin /\ c \in Halves THEN 0
     ELSE IF c \in Quarters THEN d0 - 1 ELSE d0

\* The same pipeline as one function (used by the trace specification and
\* checked equal to the action-by-action run below).
RECURSIVE Standardize(_)
Standardize(c) == LET n == CombineHalves(PassBackHalves(c))
                  IN IF n = c THEN c ELSE Standardize(n)
ModelStd(ch) == IF ch = <<"ALL">> THEN ch ELSE Standardize(Rev(ch))
ModelTrunc(c, mx) == IF mx # 0 /\ Len(c) > mx /\ Fault # "no_truncate"
                     THEN SubSeq(c, 1, mx) ELSE c
ModelRun(ch, mn, mx, b) ==
  LET c == ModelTrunc(ModelStd(ch), mx)
  IN Rebuild([i \in 1..Len(c) |-> SubdivideAliquot(c[i], DepthFor(i, c[i], Len(c), mn, b))])

VARIABLES chain, dmin, dmax, bh,   \* the input (constant along a behaviour)
          pc,                      \* control state
          cl,                      \* component_list (largest first)
          prev,                    \* aliquot_copy of the fixed-point loop
          passes,                  \* number of fixed-point rounds taken
          nested,                  \* subdivided_component_list
          out                      \* the final qq list (pieces)
vars == <<chain, dmin, dmax, bh, pc, cl, prev, passes, nested, out>>

RECURSIVE SeqsUpTo(_, _)
SeqsUpTo(S, n) == IF n = 0 THEN {<<>>}
                  ELSE LET P == SeqsUpTo(S, n - 1)
                       IN P \cup {Append(s, x) : s \in {t \in P : Len(t) = n - 1}, x \in S}
Chains == (SeqsUpTo(Comps, MaxLen) \ {<<>>}) \cup {<<"ALL">>}

Init ==
  /\ chain \in Chains
  /\ dmin \in DMins
  /\ dmax \in {d \in DMaxs : d = 0 \/ d >= dmin}
  /\ bh \in BOOLEAN
  /\ pc = "reverse" /\ cl = <<>> /\ prev = <<>> /\ passes = 0
  /\ nested = <<>> /\ out = <<>>

DoReverse ==
  /\ pc = "reverse"
  /\ cl' = Rev(chain)
  /\ prev' = <<>>
  /\ pc' = "loop_test"
  /\ UNCHANGED <<chain, dmin, dmax, bh, passes, nested, out>>

LoopTest ==
  /\ pc = "loop_test"
  /\ IF cl # prev THEN pc' = "pass_back" /\ prev' = cl
                  ELSE pc' = "truncate" /\ prev' = prev
  /\ UNCHANGED <<chain, dmin, dmax, bh, cl, passes, nested, out>>

DoPassBack ==
  /\ pc = "pass_back"
  /\ cl' = (IF chain = <<"ALL">> THEN cl ELSE PassBackHalves(cl))
  /\ pc' = "combine"
  /\ UNCHANGED <<chain, dmin, dmax, bh, prev, passes, nested, out>>

DoCombine ==
  /\ pc = "combine"
  /\ cl' = (IF chain = <<"ALL">> THEN cl ELSE CombineHalves(cl))
  /\ passes' = passes + 1
  /\ pc' = "loop_test"
  /\ UNCHANGED <<chain, dmin, dmax, bh, prev, nested, out>>

DoTruncate ==
  /\ pc = "truncate"
  /\ cl' = (IF dmax # 0 /\ Len(cl) > dmax
              /\ Fault # "no_truncate" THEN SubSeq(cl, 1, dmax) ELSE cl)
  /\ pc' = "subdivide"
  /\ UNCHANGED <<chain, dmin, dmax, bh, prev, passes, nested, out>>

DoSubdivide ==
  /\ pc = "subdivide"
  /\ nested' = [i \in 1..Len(cl) |->
                   SubdivideAliquot(cl[i], DepthFor(i, cl[i], Len(cl), dmin, bh))]
  /\ pc' = "rebuild"
  /\ UNCHANGED <<chain, dmin, dmax, bh, cl, prev, passes, out>>

DoRebuild ==
  /\ pc = "rebuild"
  /\ out' = Rebuild(nested)
  /\ pc' = "done"
  /\ UNCHANGED <<chain, dmin, dmax, bh, cl, prev, passes, nested>>

Next == DoReverse \/ LoopTest \/ DoPassBack \/ DoCombine \/ DoTruncate
        \/ DoSubdivide \/ DoRebuild
Spec == Init /\ [][Next]_vars

---------------------------------------------------------------------------
(* Properties of the model *)

\* every rewriting pass preserves the region (checked while looping)
StdRegion(c) == Region(Rev(c), 0)
PassPreservesRegion ==
  pc \in {"loop_test", "pass_back", "combine", "truncate"} /\ chain # <<"ALL">>
     => StdRegion(cl) = Region(chain, 0)
FixpointQuick == passes <= MaxLen + 1
\* at the fixed point no quarter precedes (is smaller than) a half and no
\* two neighbouring halves are on different axes
Standardised ==
  pc = "truncate" /\ chain # <<"ALL">> =>
     \A i \in 1..(Len(cl) - 1) :
        /\ ~(cl[i] \in Halves /\ cl[i + 1] \in Quarters)
        /\ ~(cl[i] \in Halves /\ cl[i + 1] \in Halves /\ ~SameAxis(cl[i], cl[i + 1]))
\* truncation to dmax components = ignoring halvings beyond dmax per axis
TruncationIsPerAxisCap ==
  pc = "subdivide" /\ chain # <<"ALL">> => StdRegion(cl) = Region(chain, dmax)
ActionsEqualFunction == pc = "done" => out = ModelRun(chain, dmin, dmax, bh)
ModelMeetsC02 == pc = "done" => C02Holds(chain, dmin, dmax, bh, out)

CaseRecord == [chain |-> chain, dmin |-> dmin, dmax |-> dmax, bh |-> bh,
               std |-> cl, expect |-> out]
EmitCase == (EmitCases /\ pc = "done") => PrintT(<<"CASE", ToJson(CaseRecord)>>)
=============================================================================
