------------------------------ MODULE PlssDesc ------------------------------
(***************************************************************************)
(* Token-level model of PLSSDesc parsing                                   *)
(* (pytrs/parser/plssdesc/plss_parse.py, plssdesc.py).                     *)
(*                                                                         *)
(* A description is a sequence of tokens                                   *)
(*   TR(v)            a Twp/Rge occurrence                                 *)
(*   SEC(multi,colon) "Section <number list>" with or without a colon      *)
(*   SECW             the word "Section" without a number                  *)
(*   TXT(k)           description text, k in                               *)
(*                    LONG (>= 4 chars), LONGOF (>= 4 chars ending " of"), *)
(*                    OF (" of " / " in "), COMMA (", "), SHORT (< 4)      *)
(* and a configuration (forced layout and its channel, segment,            *)
(* sec_within, colon mode).  Text tokens carry a unique marker word.       *)
(*                                                                         *)
(* This module defines the input space, the layout deduction               *)
(* (deduce_layout), which sections the section finder rejects, and the     *)
(* situations in which the parser must fall back to a single whole-text    *)
(* tract; the chunk parser's marker walk is modelled in PlssWalk.tla.      *)
(***************************************************************************)
EXTENDS Naturals, Integers, Sequences, FiniteSets, TLC, Json

CONSTANTS MaxTok,        \* maximal number of tokens
          Alphabet,      \* "full" or "core" (fewer symbols, for longer sequences)
          Configs,       \* set of configuration names, see ConfigOf
          Fault, EmitCases

TR(v) == [t |-> "TR", v |-> v, multi |-> FALSE, colon |-> FALSE, k |-> "-"]
SEC(m, c) == [t |-> "SEC", v |-> 0, multi |-> m, colon |-> c, k |-> "-"]
SECW == [t |-> "SECW", v |-> 0, multi |-> FALSE, colon |-> FALSE, k |-> "-"]
TXT(k) == [t |-> "TXT", v |-> 0, multi |-> FALSE, colon |-> FALSE, k |-> k]
TxtKinds == {"LONG", "LONGOF", "OF", "COMMA", "SHORT"}
Symbols == {TR(1), TR(2)} \cup {SEC(m, c) : m \in BOOLEAN, c \in BOOLEAN} \cup {SECW} \cup {TXT(k) : k \in TxtKinds}

CoreSymbols == {TR(1), SEC(FALSE, FALSE), SEC(FALSE, TRUE), TXT("LONG"), TXT("LONGOF")}
Alpha == IF Alphabet = "core" THEN CoreSymbols ELSE Symbols

IsTxt(x) == x.t = "TXT"
IsSecWord(x) == x.t \in {"SEC", "SECW"}
\* lexical side conditions: what the rendered text is guaranteed to be lexed as
Admissible(s) ==
  /\ \A i \in 1..(Len(s) - 1) : ~(IsTxt(s[i]) /\ IsTxt(s[i + 1]))
  /\ \A i \in 1..(Len(s) - 1) : ~(s[i].t = "SEC" /\ s[i + 1].t = "SEC")        \* would lex as one multi-section
  /\ \A i \in 1..(Len(s) - 2) : ~(s[i].t = "SEC" /\ s[i + 1] = TXT("COMMA") /\ s[i + 2].t = "SEC")

\* --- configurations -------------------------------------------------------
Layouts == {"TRS_desc", "desc_STR", "S_desc_TR", "TR_desc_S", "copy_all"}
ConfigOf(name) ==
  CASE name = "default"      -> [forced |-> "none", segment |-> FALSE, secwithin |-> FALSE, colon |-> "off"]
    [] name = "segment"      -> [forced |-> "none", segment |-> TRUE, secwithin |-> FALSE, colon |-> "off"]
    [] name = "secwithin"    -> [forced |-> "none", segment |-> FALSE, secwithin |-> TRUE, colon |-> "off"]
    [] name = "seg_within"   -> [forced |-> "none", segment |-> TRUE, secwithin |-> TRUE, colon |-> "off"]
    [] name = "required"     -> [forced |-> "none", segment |-> FALSE, secwithin |-> FALSE, colon |-> "required"]
    [] name = "cautious"     -> [forced |-> "none", segment |-> FALSE, secwithin |-> FALSE, colon |-> "cautious"]
    [] name = "seg_required" -> [forced |-> "none", segment |-> TRUE, secwithin |-> FALSE, colon |-> "required"]
    [] name = "within_req"   -> [forced |-> "none", segment |-> FALSE, secwithin |-> TRUE, colon |-> "required"]
    [] name = "f_copy_all"   -> [forced |-> "copy_all", segment |-> FALSE, secwithin |-> FALSE, colon |-> "off"]
    [] name = "f_copy_seg"   -> [forced |-> "copy_all", segment |-> TRUE, secwithin |-> TRUE, colon |-> "cautious"]
    [] name = "f_TRS_desc"   -> [forced |-> "TRS_desc", segment |-> FALSE, secwithin |-> FALSE, colon |-> "off"]
    [] name = "f_desc_STR"   -> [forced |-> "desc_STR", segment |-> FALSE, secwithin |-> FALSE, colon |-> "off"]
    [] name = "f_S_desc_TR"  -> [forced |-> "S_desc_TR", segment |-> FALSE, secwithin |-> TRUE, colon |-> "off"]
    [] name = "f_TR_desc_S"  -> [forced |-> "TR_desc_S", segment |-> FALSE, secwithin |-> FALSE, colon |-> "required"]
    [] name = "f_TRS_seg"    -> [forced |-> "TRS_desc", segment |-> TRUE, secwithin |-> FALSE, colon |-> "cautious"]

\* --- deduce_layout ---------------------------------------------------------
FirstIdx(s, P(_)) == IF \E i \in 1..Len(s) : P(s[i]) THEN CHOOSE i \in 1..Len(s) : P(s[i]) /\ \A j \in 1..(i - 1) : ~P(s[j]) ELSE 0
FirstTR(s) == FirstIdx(s, LAMBDA x : x.t = "TR")
FirstSecWord(s) == FirstIdx(s, IsSecWord)
\* is the text strictly between positions a and b at least 4 characters after strip()?
LongBetween(s, a, b) == \E i \in (a + 1)..(b - 1) : s[i].t \in {"TR", "SEC", "SECW"} \/ (IsTxt(s[i]) /\ s[i].k \in {"LONG", "LONGOF"})
Deduce(s) ==
  LET ft == FirstTR(s)  fs == FirstSecWord(s)
  IN IF ft = 0 \/ fs = 0 THEN "copy_all"
     ELSE IF fs < ft THEN (IF fs = 1 THEN "S_desc_TR" ELSE "desc_STR")
     ELSE IF LongBetween(s, ft, fs) /\ Fault # "never_TR_desc_S" THEN "TR_desc_S"
     ELSE "TRS_desc"
\* (a short text token before the first section word moves it past character 1)
Effective(s, cfg) == IF cfg.forced # "none" THEN cfg.forced ELSE Deduce(s)

\* --- which sections the SecFinder rejects (TRS_desc / S_desc_TR only) ----------
\* (the code tests for ' of', ' in', ... with a leading blank, so a connector that
\*  opens the text does not count)
PrecededByOf(s, i) == i > 1 /\ IsTxt(s[i - 1]) /\ (s[i - 1].k = "LONGOF" \/ (s[i - 1].k = "OF" /\ i > 2))
ColonRuleApplies(lay) == lay \in {"TRS_desc", "S_desc_TR"}
RejectedFirstPass(s, i, lay, colon) ==
  ColonRuleApplies(lay) /\ (PrecededByOf(s, i) \/ (colon \in {"required", "cautious"} /\ ~s[i].colon))
RejectedSecondPass(s, i, lay) == ColonRuleApplies(lay) /\ PrecededByOf(s, i)
SecIdx(s) == {i \in 1..Len(s) : s[i].t = "SEC"}
Accepted(s, lay, colon) ==
  LET first == {i \in SecIdx(s) : ~RejectedFirstPass(s, i, lay, colon)}
  IN IF first # {} \/ colon # "cautious" THEN first
     ELSE {i \in SecIdx(s) : ~RejectedSecondPass(s, i, lay)}
SecondPassUsed(s, lay, colon) ==
  colon = "cautious" /\ ColonRuleApplies(lay)
  /\ {i \in SecIdx(s) : ~RejectedFirstPass(s, i, lay, colon)} = {}
  /\ {i \in SecIdx(s) : ~RejectedSecondPass(s, i, lay)} # {}

\* --- when the whole text must end up in exactly one tract (C11) ----------------
HasTR(s) == FirstTR(s) # 0
HasNumberedSec(s) == SecIdx(s) # {}
\* without `segment` the text is one chunk; a chunk without an accepted section or
\* without a Twp/Rge that can be matched yields no tract and is re-run as copy_all
MustFallBack(s, cfg) ==
  LET lay == Effective(s, cfg)
  IN \/ cfg.forced = "copy_all"
     \/ cfg.forced = "none" /\ Deduce(s) = "copy_all"
     \/ ~cfg.segment /\ lay # "copy_all" /\ Accepted(s, lay, cfg.colon) = {}
BothFound(s) == HasTR(s) /\ HasNumberedSec(s)

---------------------------------------------------------------------------
VARIABLES toks, cfgname, phase
vars == <<toks, cfgname, phase>>
Init == toks = <<>> /\ cfgname \in Configs /\ phase = "choose"
\* choosing the token sequence is an action so that TLC's workers share it
Choose == /\ phase = "choose"
          /\ \E n \in 1..MaxTok : \E s \in [1..n -> Alpha] : Admissible(s) /\ toks' = s
          /\ phase' = "chosen" /\ UNCHANGED cfgname
Next == Choose
Spec == Init /\ [][Next]_vars

Cfg == ConfigOf(cfgname)
\* sanity of the derived notions (design level)
DeduceTotal == phase = "chosen" => Deduce(toks) \in Layouts
LackingMeansCopyAll == phase = "chosen" /\ (~HasTR(toks) \/ FirstSecWord(toks) = 0) => Deduce(toks) = "copy_all"
CopyAllMeansFallBack == phase = "chosen" /\ Effective(toks, Cfg) = "copy_all" => MustFallBack(toks, Cfg)
AcceptedAreSections == phase = "chosen" => Accepted(toks, Effective(toks, Cfg), Cfg.colon) \subseteq SecIdx(toks)
ColonFreeLayoutsAcceptAll ==
  phase = "chosen" /\ Effective(toks, Cfg) \in {"desc_STR", "TR_desc_S"} => Accepted(toks, Effective(toks, Cfg), Cfg.colon) = SecIdx(toks)
S_desc_TR_NeedsLeadingSection == phase = "chosen" /\ Deduce(toks) = "S_desc_TR" => IsSecWord(toks[1])

\* used only by the fault-injection run (the faulty deduction never answers TR_desc_S)
FaultProbe == phase = "chosen" /\ HasTR(toks) /\ FirstSecWord(toks) > FirstTR(toks) /\ LongBetween(toks, FirstTR(toks), FirstSecWord(toks))
                 => Deduce(toks) = "TR_desc_S"

CaseRecord == [toks |-> toks, cfgname |-> cfgname, cfg |-> Cfg,
               deduced |-> Deduce(toks),
               x |-> [forced_copy_all |-> Cfg.forced = "copy_all",
                      must_fall_back |-> MustFallBack(toks, Cfg),
                      both_found |-> BothFound(toks)]]
EmitCase == (EmitCases /\ phase = "chosen") => PrintT(<<"CASE", ToJson(CaseRecord)>>)
=============================================================================
