--------------------------- MODULE PlssWalkTrace ---------------------------
(***************************************************************************)
(* Conformance of the real PLSSDesc with the marker-walk model             *)
(* (PlssWalk.tla).  One record per TLC-emitted terminal state:             *)
(*  {"id", "model": {lay, fell, comps: [{tr, sec, toksec, first, marks}],  *)
(*                   unused: [[marker]], eflags: [kind], wflags: [kind]},  *)
(*   "seccount": [per token index: how many section numbers it names],     *)
(*   "obs": {exc, lay, tracts: [{tr, sec, marks}], unused: [[marker]],     *)
(*           eflags: [kind], wflags: [kind of finder / sec_within warning]}}*)
(* The comparison is drift (R4): which tract carries which text, which     *)
(* Twp/Rge and section, which text is flagged unused, which error flags.   *)
(***************************************************************************)
EXTENDS Naturals, Integers, Sequences, FiniteSets, TLC, Json, IOUtils

VARIABLE l
Trace == JsonDeserialize(IOEnv.TRACE_FILE)
TraceInit == l = 1
Consume == l <= Len(Trace) /\ l' = l + 1
TraceSpec == TraceInit /\ [][Consume]_l
Rec == Trace[l - 1]

\* one tract per section number of the component's section token (one for an error section / a fallback)
Copies(r, c) == IF c.first \/ c.toksec = 0 THEN 1 ELSE r.seccount[c.toksec]
RECURSIVE Expand(_, _)
Expand(r, j) == IF j > Len(r.model.comps) THEN <<>>
                ELSE LET c == r.model.comps[j]
                     IN [m \in 1..Copies(r, c) |-> [tr |-> c.tr, sec |-> c.sec, marks |-> c.marks]] \o Expand(r, j + 1)
Count(x, s) == Cardinality({j \in 1..Len(s) : s[j] = x})
SameBag(a, b) == Len(a) = Len(b) /\ \A j \in 1..Len(a) : Count(a[j], a) = Count(a[j], b)
Differs(r) ==
  IF r.obs.exc # "none" THEN "exception"
  ELSE IF r.obs.lay # r.model.lay THEN "layout"
  ELSE IF Len(r.obs.tracts) # Len(Expand(r, 1)) THEN "number_of_tracts"
  ELSE IF r.obs.tracts # Expand(r, 1) THEN "tract_contents"
  ELSE IF r.obs.unused # r.model.unused THEN "unused_text_flags"
  ELSE IF ~SameBag(r.obs.eflags, r.model.eflags) THEN "error_flag_kinds"
  ELSE IF ~SameBag(r.obs.wflags, r.model.wflags) THEN "warning_flag_kinds"
  ELSE "same"
Drift == l > 1 => (Differs(Rec) = "same" \/ PrintT(<<"INFO", "drift", Rec.id, Differs(Rec)>>))
AllConsumed ==
  /\ PrintT(<<"INFO", "consumed", TLCGet("stats").diameter - 1, Len(Trace)>>)
  /\ TLCGet("stats").diameter - 1 = Len(Trace)
=============================================================================
