------------------------------ MODULE PlssDoc ------------------------------
(***************************************************************************)
(* Descriptions written in one of the four documented layouts, and what    *)
(* they denote (properties C01 and C20).                                   *)
(*                                                                         *)
(* A document is  [layout, groups]  where a group is one Twp/Rge with one  *)
(* or more section groups, and a section group is an elided list of        *)
(* section numbers plus one description block:                             *)
(*    TRS_desc :  TR  SEC: block  SEC: block ...   TR  SEC: block ...      *)
(*    TR_desc_S:  TR  block of SEC  block of SEC ...                       *)
(*    desc_STR :  block of SEC, block of SEC ..., TR   ...                 *)
(*    S_desc_TR:  SEC: block  SEC: block ... TR   ...                      *)
(* The grammar is a transition system (AddGroup / AddSec / Finish) so that *)
(* TLC enumerates every document shape up to the bounds; Denotation is the *)
(* list of tracts (Twp/Rge id, section number, block id) in reading order. *)
(* Concrete numbers, spellings and block texts are chosen by the harness;  *)
(* the trace specification evaluates Denotation on the concrete lists.     *)
(***************************************************************************)
EXTENDS ListDenot, TLC, Json

CONSTANTS MaxGroups,    \* Twp/Rge groups per document
          MaxSecs,      \* section groups per Twp/Rge group
          TRIds,        \* abstract Twp/Rge identities
          Fault, EmitCases

Layouts == {"TRS_desc", "TR_desc_S", "desc_STR", "S_desc_TR"}
SecKinds == {"single", "and", "thru", "thru_and"}

\* --- denotation on concrete documents ------------------------------------
\* a concrete section group: [nums, conns, block]; a concrete group: [tr, secs]
RECURSIVE SecTracts(_, _, _)
SecTracts(tr, sg, k) ==          \* tracts of one section group
  LET e == Expand(sg.nums, sg.conns)
  IN [j \in 1..Len(e) |-> [tr |-> tr, sec |-> e[j], block |-> sg.block]]
RECURSIVE GroupTracts(_, _)
GroupTracts(g, k) == IF k > Len(g.secs) THEN <<>>
                     ELSE SecTracts(g.tr, g.secs[k], 0) \o GroupTracts(g, k + 1)
RECURSIVE DocTracts(_, _)
DocTracts(groups, k) == IF k > Len(groups) THEN <<>>
                        ELSE GroupTracts(groups[k], 1) \o DocTracts(groups, k + 1)
Denotation(groups) ==
  IF Fault = "last_group_only" /\ Len(groups) > 1 THEN GroupTracts(groups[Len(groups)], 1)
  ELSE DocTracts(groups, 1)

\* --- the library's own rendering (TractList.pretty_desc) ----------------------
\* One header line per maximal run of tracts with the same Twp/Rge ("to the extent possible while maintaining the
\* current order"), one section line per tract.  Lines: [k |-> "tr" | "sec", tr, sec, block].
HeaderLine(tr) == [k |-> "tr", tr |-> tr, sec |-> 0, block |-> 0]
SecLine(t) == [k |-> "sec", tr |-> t.tr, sec |-> t.sec, block |-> t.block]
RECURSIVE PrettyFrom(_, _)
PrettyFrom(den, i) ==
  IF i > Len(den) THEN <<>>
  ELSE (IF i = 1 \/ (den[i].tr # den[i - 1].tr /\ Fault # "pretty_one_header") THEN <<HeaderLine(den[i].tr)>> ELSE <<>>)
       \o <<SecLine(den[i])>> \o PrettyFrom(den, i + 1)
PrettyLines(den) == PrettyFrom(den, 1)
\* the rendering read as a document again (Twp/Rge-Sec-desc layout, every section a list of one):
\* a section line belongs to the last header line before it
RECURSIVE ReadFrom(_, _, _)
ReadFrom(lines, i, cur) ==
  IF i > Len(lines) THEN <<>>
  ELSE IF lines[i].k = "tr" THEN ReadFrom(lines, i + 1, lines[i].tr)
  ELSE <<[tr |-> cur, sec |-> lines[i].sec, block |-> lines[i].block]>> \o ReadFrom(lines, i + 1, cur)
ReadPretty(lines) == ReadFrom(lines, 1, 0)
Runs(den) == Cardinality({i \in 1..Len(den) : i = 1 \/ den[i].tr # den[i - 1].tr})

\* --- the grammar as a transition system -------------------------------------
VARIABLES layout, groups, open, done
vars == <<layout, groups, open, done>>

Init == layout \in Layouts /\ groups = <<>> /\ open = FALSE /\ done = FALSE
\* start a new Twp/Rge group (its first section group follows immediately)
AddGroup == /\ ~done /\ Len(groups) < MaxGroups
            /\ (groups = <<>> \/ open)
            /\ \E tr \in TRIds : \E k \in SecKinds :
                 groups' = Append(groups, [tr |-> tr, secs |-> <<k>>])
            /\ open' = TRUE /\ UNCHANGED <<layout, done>>
AddSec == /\ ~done /\ open /\ Len(groups[Len(groups)].secs) < MaxSecs
          /\ \E k \in SecKinds :
               groups' = [groups EXCEPT ![Len(groups)].secs = Append(@, k)]
          /\ UNCHANGED <<layout, open, done>>
Finish == /\ ~done /\ open /\ done' = TRUE /\ UNCHANGED <<layout, groups, open>>
Next == AddGroup \/ AddSec \/ Finish
Spec == Init /\ [][Next]_vars

\* abstract stand-in lists for the kinds, to check the denotation's shape
KindNums(k) == CASE k = "single" -> <<5>> [] k = "and" -> <<5, 9>> [] k = "thru" -> <<5, 7>> [] k = "thru_and" -> <<5, 7, 9>>
KindConns(k) == CASE k = "single" -> <<>> [] k = "and" -> <<"AND">> [] k = "thru" -> <<"THRU">> [] k = "thru_and" -> <<"THRU", "AND">>
KindCount(k) == CASE k = "single" -> 1 [] k = "and" -> 2 [] k = "thru" -> 3 [] k = "thru_and" -> 4
Concrete == [g \in 1..Len(groups) |->
               [tr |-> groups[g].tr,
                secs |-> [s \in 1..Len(groups[g].secs) |->
                            [nums |-> KindNums(groups[g].secs[s]), conns |-> KindConns(groups[g].secs[s]),
                             block |-> g * 10 + s]]]]
RECURSIVE SumCounts(_, _)
SumCounts(ks, j) == IF j = 0 THEN 0 ELSE KindCount(ks[j]) + SumCounts(ks, j - 1)
RECURSIVE Total(_)
Total(j) == IF j = 0 THEN 0 ELSE SumCounts(groups[j].secs, Len(groups[j].secs)) + Total(j - 1)
\* one tract per named section, in reading order, each with its own block
OneTractPerSection == done => Len(Denotation(Concrete)) = Total(Len(groups))
ReadingOrder == done => LET d == Denotation(Concrete) IN
                  \A a, b \in 1..Len(d) : a < b => d[a].block <= d[b].block
\* pretty_desc is again a description of the same tracts, with one header per run of equal Twp/Rge
PrettyRoundTrip == done => ReadPretty(PrettyLines(Denotation(Concrete))) = Denotation(Concrete)
PrettyHeaders == done => LET d == Denotation(Concrete) IN
                   Cardinality({i \in 1..Len(PrettyLines(d)) : PrettyLines(d)[i].k = "tr"}) = Runs(d)
Bounded == Len(groups) <= MaxGroups /\ \A g \in 1..Len(groups) : Len(groups[g].secs) \in 1..MaxSecs

CaseRecord == [layout |-> layout, groups |-> groups]
EmitCase == (EmitCases /\ done) => PrintT(<<"CASE", ToJson(CaseRecord)>>)
=============================================================================
