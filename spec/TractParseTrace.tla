-------------------------- MODULE TractParseTrace --------------------------
(***************************************************************************)
(* Trace validation for C06.  One record per rendered description:         *)
(*  {"id", "kinds", "seps", "suppress",                                    *)
(*   "whole": {lots, qqs, lots_qqs: [interned], ilots: [int], lotnums:     *)
(*             [int] (numbers read off the lot names), dup_lot, dup_qq},   *)
(*   "parts": [{lots, qqs, div_ok, lots_ok}]  each element parsed on its   *)
(*             own (lots_ok: a lot element yields exactly the lot numbers  *)
(*             written in it, in order, and no aliquot; an aliquot chain   *)
(*             yields no lot),                                             *)
(*   "acres_ok": stated acreages attributed to their lots, "exc"}          *)
(***************************************************************************)
EXTENDS TractParse, IOUtils

VARIABLE l
Trace == JsonDeserialize(IOEnv.TRACE_FILE)
tvars == <<vars, l>>
TraceInit == l = 1 /\ kinds = <<>> /\ seps = <<>> /\ suppress = FALSE /\ phase = "trace"
Consume == /\ l <= Len(Trace) /\ l' = l + 1
           /\ kinds' = Trace[l].kinds /\ seps' = <<l>> /\ suppress' = Trace[l].suppress /\ phase' = "observed"
TraceSpec == TraceInit /\ [][Consume]_tvars
Rec == Trace[l - 1]

RECURSIVE CatLots(_, _)
CatLots(ps, i) == IF i > Len(ps) THEN <<>> ELSE ps[i].lots \o CatLots(ps, i + 1)
RECURSIVE CatQqs(_, _)
CatQqs(ps, i) == IF i > Len(ps) THEN <<>> ELSE ps[i].qqs \o CatQqs(ps, i + 1)
HasDup(s) == \E a, b \in 1..Len(s) : a < b /\ s[a] = s[b]
Clause(r) ==
  IF r.exc # "none" THEN "exception_raised"
  ELSE IF r.whole.lots # CatLots(r.parts, 1) THEN "lots_differ_from_concatenation_of_elements"
  ELSE IF r.whole.qqs # CatQqs(r.parts, 1) THEN "aliquots_differ_from_concatenation_of_elements"
  ELSE IF r.whole.lots_qqs # r.whole.lots \o r.whole.qqs THEN "lots_qqs_not_lots_then_qqs"
  ELSE IF r.whole.ilots # r.whole.lotnums THEN "ilots_do_not_mirror_lots"
  ELSE IF \E i \in 1..Len(r.parts) : ~r.parts[i].div_ok THEN "lot_division_rule_broken"
  ELSE IF \E i \in 1..Len(r.parts) : ~r.parts[i].lots_ok THEN "element_does_not_yield_its_lots_as_written"
  ELSE IF ~r.acres_ok THEN "acreage_not_attributed_to_its_lot"
  ELSE IF r.whole.dup_lot # HasDup(r.whole.lots) THEN "dup_lot_warning_wrong"
  ELSE IF r.whole.dup_qq # HasDup(r.whole.qqs) THEN "dup_qq_warning_wrong"
  ELSE "ok"
Verdict == phase = "observed" => (Clause(Rec) = "ok" \/ PrintT(<<"FAIL", Rec.id, Clause(Rec)>>))
\* binding of the extraction model: it predicts exactly which descriptions are compositional
ObservedCompositional(r) == r.exc = "none" /\ r.whole.lots = CatLots(r.parts, 1) /\ r.whole.qqs = CatQqs(r.parts, 1)
Drift == phase = "observed" =>
           \/ Rec.exc # "none"
           \/ ObservedCompositional(Rec) = Compositional(Rec.kinds, Rec.seps)
           \/ PrintT(<<"INFO", "drift", Rec.id>>)
AllConsumed ==
  /\ PrintT(<<"INFO", "consumed", TLCGet("stats").diameter - 1, Len(Trace)>>)
  /\ TLCGet("stats").diameter - 1 = Len(Trace)
=============================================================================
