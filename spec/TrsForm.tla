------------------------------ MODULE TrsForm ------------------------------
(***************************************************************************)
(* The pyTRS standard Twp/Rge/Sec form as a language over characters       *)
(* (strings are sequences of one-character strings): recogniser,           *)
(* canonical rendering of components, decomposition.  No variables, no     *)
(* constants: shared by TrsStd (C12) and ObsInvariants (C09).              *)
(***************************************************************************)
EXTENDS Naturals, Integers, Sequences, FiniteSets

Digit == {"0", "1", "2", "3", "4", "5", "6", "7", "8", "9"}
DigitChars == <<"0", "1", "2", "3", "4", "5", "6", "7", "8", "9">>
DVal(c) == CHOOSE v \in 0..9 : DigitChars[v + 1] = c
NSl == {"n", "s"}   EWl == {"e", "w"}
Lower(c) == CASE c = "N" -> "n" [] c = "S" -> "s" [] c = "E" -> "e" [] c = "W" -> "w" [] OTHER -> c

ErrTwp == <<"X", "X", "X", "z">>     UndefTwp == <<"_", "_", "_", "z">>
ErrSec == <<"X", "X">>               UndefSec == <<"_", "_">>
ErrTrs == ErrTwp \o ErrTwp \o ErrSec
UndefTrs == UndefTwp \o UndefTwp \o UndefSec

RECURSIVE SeqNum(_, _)
SeqNum(ds, k) == IF k = 0 THEN 0 ELSE SeqNum(ds, k - 1) * 10 + DVal(ds[k])
NumSeq(n) == IF n < 10 THEN <<DigitChars[n + 1]>>
             ELSE IF n < 100 THEN <<DigitChars[(n \div 10) + 1], DigitChars[(n % 10) + 1]>>
             ELSE IF n < 1000 THEN <<DigitChars[(n \div 100) + 1], DigitChars[((n \div 10) % 10) + 1], DigitChars[(n % 10) + 1]>>
             ELSE <<DigitChars[(n \div 1000) + 1], DigitChars[((n \div 100) % 10) + 1], DigitChars[((n \div 10) % 10) + 1], DigitChars[(n % 10) + 1]>>
Pad2(n) == IF n < 10 THEN <<"0">> \o NumSeq(n) ELSE NumSeq(n)
AllDigits(s) == \A i \in 1..Len(s) : s[i] \in Digit

---------------------------------------------------------------------------
(* Part 1 *)
Num(n, d) == [k |-> "num", n |-> n, d |-> d]
SNum(n)   == [k |-> "num", n |-> n]
Err   == [k |-> "err"]
Undef == [k |-> "undef"]

\* does the char sequence t spell a township (dirs = NSl) / range (dirs = EWl)?
IsNumDir(t, dirs) == Len(t) \in 2..4 /\ AllDigits(SubSeq(t, 1, Len(t) - 1)) /\ Lower(t[Len(t)]) \in dirs
IsTR(t, dirs) == IsNumDir(t, dirs) \/ t = ErrTwp \/ t = UndefTwp
IsSec(t) == (Len(t) = 2 /\ AllDigits(t)) \/ t = ErrSec \/ t = UndefSec
\* the (unique) split of s into twp / rge / sec, if any
Splits(s) == {<<i, j>> \in (1..Len(s)) \X (1..Len(s)) :
                 /\ i < j /\ j < Len(s)
                 /\ IsTR(SubSeq(s, 1, i), NSl)
                 /\ IsTR(SubSeq(s, i + 1, j), EWl)
                 /\ IsSec(SubSeq(s, j + 1, Len(s)))}
IsExtStd(s) == Splits(s) # {}
\* twp + rge without any section: accepted by the code with an error section
SplitsNoSec(s) == {i \in 1..Len(s) : i < Len(s) /\ IsTR(SubSeq(s, 1, i), NSl) /\ IsTR(SubSeq(s, i + 1, Len(s)), EWl)}

CompTR(t) == IF t = ErrTwp THEN Err ELSE IF t = UndefTwp THEN Undef
             ELSE Num(SeqNum(SubSeq(t, 1, Len(t) - 1), Len(t) - 1), Lower(t[Len(t)]))
CompSec(t) == IF t = ErrSec THEN Err ELSE IF t = UndefSec THEN Undef ELSE SNum(SeqNum(t, 2))
Decompose(s) == LET sp == CHOOSE p \in Splits(s) : TRUE
                IN [twp |-> CompTR(SubSeq(s, 1, sp[1])),
                    rge |-> CompTR(SubSeq(s, sp[1] + 1, sp[2])),
                    sec |-> CompSec(SubSeq(s, sp[2] + 1, Len(s)))]

CanonTR(c) == IF c.k = "err" THEN ErrTwp ELSE IF c.k = "undef" THEN UndefTwp ELSE NumSeq(c.n) \o <<c.d>>
CanonSec(c) == IF c.k = "err" THEN ErrSec ELSE IF c.k = "undef" THEN UndefSec ELSE Pad2(c.n)
Canon(cs) == CanonTR(cs.twp) \o CanonTR(cs.rge) \o CanonSec(cs.sec)
LowerAll(s) == [i \in 1..Len(s) |-> Lower(s[i])]

\* a string "looks valid" when all three components are numbers
LooksValid(s) == IsExtStd(s) /\ LET d == Decompose(s) IN d.twp.k = "num" /\ d.rge.k = "num" /\ d.sec.k = "num"
HasErrorPart(s) == IsExtStd(s) /\ LET d == Decompose(s) IN d.twp.k = "err" \/ d.rge.k = "err" \/ d.sec.k = "err"

\* what wrapping an arbitrary string in TRS() must give (weaker reading, R3):
\*   a string in the (extended) standard form is kept, direction letters lower-cased;
\*   the empty string is the undefined TRS; anything else carries an error placeholder.
WrapOK(s, out) ==
  IF s = <<>> THEN out = UndefTrs
  ELSE IF IsExtStd(s) THEN out = LowerAll(s)
  ELSE HasErrorPart(out)
=============================================================================
