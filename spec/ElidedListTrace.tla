------------------------- MODULE ElidedListTrace -------------------------
(***************************************************************************)
(* Trace validation for C05.  One record per observation of the real code: *)
(*  {"id", "nums": [...], "conns": [...], "kw": [...],                     *)
(*   "obs": [[...], ...]   every number sequence the API reported for the  *)
(*                          list (find_sec / tract sections / lots / ilots)*)
(*   "nonseq": bool         a non-sequential warning was raised,           *)
(*   "shared": bool         all tracts share the block's description,      *)
(*   "exc": "none" | class}                                                *)
(* Verdict = property C05 on the observation; Drift = the observation      *)
(* differs from what the scan model (ElidedList!Scan) produces, checked    *)
(* for inputs outside the claim too (chained ranges, equal end points).    *)
(***************************************************************************)
EXTENDS ElidedList, IOUtils

VARIABLE l
Trace == JsonDeserialize(IOEnv.TRACE_FILE)
tvars == <<vars, l>>

TraceInit ==
  /\ l = 1
  /\ input = [nums |-> <<>>, conns |-> <<>>, kw |-> <<>>]
  /\ i = 0 /\ working = <<>> /\ found = FALSE /\ nflags = 0 /\ wle = 0
  /\ result = <<>> /\ athru = 0 /\ done = FALSE /\ pc = "trace"

Consume ==
  /\ l <= Len(Trace)
  /\ l' = l + 1
  /\ LET r == Trace[l] IN
       /\ input' = [nums |-> r.nums, conns |-> r.conns, kw |-> r.kw]
       /\ i' = l /\ working' = <<>> /\ found' = FALSE /\ wle' = 0
       /\ nflags' = 0 /\ result' = <<>> /\ athru' = 0
       /\ done' = TRUE /\ pc' = "Done"
TraceSpec == TraceInit /\ [][Consume]_tvars

Rec == Trace[l - 1]
InClaim(r) == ~Chained(r.conns)
Clause(r) ==
  IF r.exc # "none" THEN "exception_raised"
  ELSE IF Len(r.obs) = 0 THEN "nothing_observed"
  ELSE IF \E k \in 1..Len(r.obs) : r.obs[k] # Expand(r.nums, r.conns) THEN "wrong_expansion"
  ELSE IF Descending(r.nums, r.conns) /\ ~r.nonseq THEN "descending_without_warning"
  ELSE IF ~r.shared THEN "tracts_do_not_share_description"
  ELSE "ok"
Verdict ==
  done => \/ ~InClaim(Rec)
          \/ Clause(Rec) = "ok"
          \/ PrintT(<<"FAIL", Rec.id, Clause(Rec)>>)
\* what the model of the scan predicts, including for unclaimed inputs
ModelFlag(r) == NonAscending(r.nums, r.conns)
Drift ==
  done => \/ Rec.exc # "none"
          \/ /\ \A k \in 1..Len(Rec.obs) : Rec.obs[k] = Expand(Rec.nums, Rec.conns)
             /\ Rec.nonseq = ModelFlag(Rec)
          \/ PrintT(<<"INFO", "drift", Rec.id>>)
AllConsumed ==
  /\ PrintT(<<"INFO", "consumed", TLCGet("stats").diameter - 1, Len(Trace)>>)
  /\ TLCGet("stats").diameter - 1 = Len(Trace)
=============================================================================
