---------------------------- MODULE ContainerSM ----------------------------
(***************************************************************************)
(* A TractList / TRSList as a mutable sequence, under SEQUENCES of calls   *)
(* (pytrs/parser/containers/containers.py, class _TRSTractList):           *)
(*   append, extend, +=, *=, insert, pop, __setitem__, reverse,            *)
(*   filter(drop=True), copy, +, *, to_standard_list, slicing, ==          *)
(* Three objects exist in a behaviour: the container x, a container y      *)
(* derived from it (copy / + / * / filter result) and a plain list z it    *)
(* handed out.  An element is a small number (an object identity); 0 is    *)
(* an object the container must refuse.                                    *)
(*                                                                         *)
(* Implementation shape that matters: every entry path first type-checks   *)
(* the WHOLE iterable into a new list (_verify_iterable) and only then     *)
(* touches the container, so a refused call changes nothing; copy(), +, *  *)
(* and to_standard_list() build new lists, so y and z never share storage  *)
(* with x.  `share` records storage sharing so that the design faults      *)
(* ("copy_shares", "tolist_shares") are visible to Independent; the fault  *)
(* "extend_partial" appends element by element (visible to Atomic).        *)
(***************************************************************************)
EXTENDS Naturals, Integers, Sequences, FiniteSets, TLC, Json

CONSTANTS MaxOps, Good, MaxIter, Fault, EmitCases

Bad == 0
Elems == Good \cup {Bad}
Iters == UNION {[1..n -> Elems] : n \in 0..MaxIter}
AllGood(s) == \A i \in 1..Len(s) : s[i] # Bad
Rev(s) == [i \in 1..Len(s) |-> s[Len(s) + 1 - i]]
RECURSIVE Times(_, _)
Times(s, n) == IF n <= 0 THEN <<>> ELSE s \o Times(s, n - 1)
Min(a, b) == IF a < b THEN a ELSE b
Max(a, b) == IF a > b THEN a ELSE b
\* Python index arithmetic ----------------------------------------------------
InsPos(L, i) == IF i < 0 THEN Max(0, L + i) ELSE Min(i, L)                 \* list.insert clamps
Norm(L, i) == IF i < 0 THEN L + i ELSE i                                   \* pop / __setitem__ do not
InRange(L, i) == Norm(L, i) >= 0 /\ Norm(L, i) < L
RemoveAt(s, k) == SubSeq(s, 1, k) \o SubSeq(s, k + 2, Len(s))             \* k zero-based
SetAt(s, k, e) == [j \in 1..Len(s) |-> IF j = k + 1 THEN e ELSE s[j]]
InsertAt(s, p, e) == SubSeq(s, 1, p) \o <<e>> \o SubSeq(s, p + 1, Len(s))
Slice(s, a, b) == SubSeq(s, Min(a, Len(s)) + 1, Min(b, Len(s)))            \* s[a:b], 0 <= a, b
SelectSeq2(s, P(_)) == SelectSeq(s, P)

\* ---- operations --------------------------------------------------------------
Op(name, tgt, i, e, it) == [name |-> name, tgt |-> tgt, i |-> i, e |-> e, it |-> it]
Idx == -3..3
OpsX == {Op("append", "x", 0, e, <<>>) : e \in Elems}
        \cup {Op(n, "x", 0, 0, it) : n \in {"extend", "iadd", "add", "radd"}, it \in Iters}
        \cup {Op(n, "x", 0, 0, <<>>) : n \in {"extend_str", "extend_self", "iadd_self", "extend_y", "reverse", "copy", "tolist", "eq_y",
                                               "filter_drop", "filter_keep"}}
        \cup {Op(n, "x", k, 0, <<>>) : n \in {"imul", "mul"}, k \in 0..2}
        \cup {Op("insert", "x", i, e, <<>>) : i \in Idx, e \in Elems}
        \cup {Op("setitem", "x", i, e, <<>>) : i \in {-1, 0, 1, 2}, e \in Elems}
        \cup {Op("pop", "x", i, 0, <<>>) : i \in {-1, 0, 1, 5}}
        \cup {Op("slice", "x", i, 0, <<>>) : i \in {0, 1}}
OpsY == {Op("append", "y", 0, e, <<>>) : e \in Good} \cup {Op("pop", "y", -1, 0, <<>>), Op("reverse", "y", 0, 0, <<>>)}
OpsZ == {Op("append", "z", 0, e, <<>>) : e \in Good} \cup {Op("pop", "z", -1, 0, <<>>)}
Ops == OpsX \cup OpsY \cup OpsZ

\* ---- state -------------------------------------------------------------------
\* st = [x, y, z, hasY, hasZ, shareY, shareZ];  out = [exc, ret]
NoRet == <<>>
St0(x0) == [x |-> x0, y |-> <<>>, z |-> <<>>, hasY |-> FALSE, hasZ |-> FALSE, shareY |-> FALSE, shareZ |-> FALSE]
Ok(st, ret) == [st |-> st, exc |-> "none", ret |-> ret]
Raise(st, e) == [st |-> st, exc |-> e, ret |-> NoRet]
\* write x (and whatever shares its storage)
PutX(st, v) == [st EXCEPT !.x = v, !.y = IF st.shareY THEN v ELSE st.y, !.z = IF st.shareZ THEN v ELSE st.z]
\* rebinding x._elements to a NEW list (+=, *=, filter(drop)) ends any sharing
RebindX(st, v) == [st EXCEPT !.x = v, !.shareY = FALSE, !.shareZ = FALSE]
PutY(st, v) == [st EXCEPT !.y = v, !.x = IF st.shareY THEN v ELSE st.x, !.z = IF st.shareY /\ st.shareZ THEN v ELSE st.z]
PutZ(st, v) == [st EXCEPT !.z = v, !.x = IF st.shareZ THEN v ELSE st.x, !.y = IF st.shareZ /\ st.shareY THEN v ELSE st.y]
NewY(st, v, sh) == [st EXCEPT !.y = v, !.hasY = TRUE, !.shareY = sh]
NewZ(st, v, sh) == [st EXCEPT !.z = v, !.hasZ = TRUE, !.shareZ = sh]
\* the elements filter() selects in this model: element 1
Sel(s) == SelectSeq(s, LAMBDA e : e = 1)
Rest(s) == SelectSeq(s, LAMBDA e : e # 1)
\* the longest all-good prefix (what a one-by-one extend would have appended before it raised)
RECURSIVE GoodPrefix(_)
GoodPrefix(s) == IF s = <<>> \/ Head(s) = Bad THEN <<>> ELSE <<Head(s)>> \o GoodPrefix(Tail(s))

ApplyX(st, op) ==
  LET x == st.x  L == Len(st.x) IN
  CASE op.name = "append" -> IF op.e = Bad THEN Raise(st, "TypeError") ELSE Ok(PutX(st, Append(x, op.e)), NoRet)
    [] op.name = "extend" -> IF AllGood(op.it) THEN Ok(PutX(st, x \o op.it), NoRet)
                             ELSE IF Fault = "extend_partial" THEN Raise(PutX(st, x \o GoodPrefix(op.it)), "TypeError")
                             ELSE Raise(st, "TypeError")
    [] op.name = "iadd" -> IF AllGood(op.it) THEN Ok(RebindX(st, x \o op.it), NoRet) ELSE Raise(st, "TypeError")
    [] op.name = "add" -> IF AllGood(op.it) THEN Ok(NewY(st, x \o op.it, FALSE), NoRet) ELSE Raise(st, "TypeError")
    \* <plain list or tuple> + x: the container has no reflected addition, Python raises TypeError
    \* (the trace specification also accepts a result that holds the supplied elements first, then x's, in order)
    [] op.name = "radd" -> Raise(st, "TypeError")
    [] op.name = "extend_str" -> Raise(st, "TypeError")
    [] op.name = "extend_self" -> Ok(PutX(st, x \o x), NoRet)
    [] op.name = "iadd_self" -> Ok(RebindX(st, x \o x), NoRet)
    [] op.name = "extend_y" -> IF st.hasY THEN Ok(PutX(st, x \o st.y), NoRet) ELSE Ok(st, NoRet)
    [] op.name = "imul" -> Ok(RebindX(st, Times(x, op.i)), NoRet)
    [] op.name = "mul" -> Ok(NewY(st, Times(x, op.i), FALSE), NoRet)
    [] op.name = "insert" -> IF op.e = Bad THEN Raise(st, "TypeError") ELSE Ok(PutX(st, InsertAt(x, InsPos(L, op.i), op.e)), NoRet)
    [] op.name = "setitem" -> IF op.e = Bad THEN Raise(st, "TypeError")           \* (the value is checked before the index is used)
                              ELSE IF ~InRange(L, op.i) THEN Raise(st, "IndexError")
                              ELSE Ok(PutX(st, SetAt(x, Norm(L, op.i), op.e)), NoRet)
    [] op.name = "pop" -> IF ~InRange(L, op.i) THEN Raise(st, "IndexError")
                          ELSE Ok(PutX(st, RemoveAt(x, Norm(L, op.i))), <<x[Norm(L, op.i) + 1]>>)
    [] op.name = "reverse" -> Ok(PutX(st, Rev(x)), NoRet)
    [] op.name = "copy" -> Ok(NewY(st, x, Fault = "copy_shares"), NoRet)
    [] op.name = "tolist" -> Ok(NewZ(st, x, Fault = "tolist_shares"), NoRet)
    [] op.name = "slice" -> Ok(NewZ(st, Slice(x, op.i, op.i + 2), FALSE), NoRet)
    [] op.name = "eq_y" -> Ok(st, <<IF st.hasY /\ x = st.y THEN 1 ELSE 0>>)
    [] op.name = "filter_keep" -> Ok(NewY(st, Sel(x), FALSE), NoRet)
    [] op.name = "filter_drop" -> Ok(NewY(RebindX(st, Rest(x)), Sel(x), FALSE), NoRet)
ApplyY(st, op) ==
  IF ~st.hasY THEN Ok(st, NoRet)
  ELSE CASE op.name = "append" -> Ok(PutY(st, Append(st.y, op.e)), NoRet)
         [] op.name = "reverse" -> Ok(PutY(st, Rev(st.y)), NoRet)
         [] op.name = "pop" -> IF st.y = <<>> THEN Raise(st, "IndexError")
                               ELSE Ok(PutY(st, SubSeq(st.y, 1, Len(st.y) - 1)), <<st.y[Len(st.y)]>>)
ApplyZ(st, op) ==
  IF ~st.hasZ THEN Ok(st, NoRet)
  ELSE CASE op.name = "append" -> Ok(PutZ(st, Append(st.z, op.e)), NoRet)
         [] op.name = "pop" -> IF st.z = <<>> THEN Raise(st, "IndexError")
                               ELSE Ok(PutZ(st, SubSeq(st.z, 1, Len(st.z) - 1)), <<st.z[Len(st.z)]>>)
Apply(st, op) == CASE op.tgt = "x" -> ApplyX(st, op) [] op.tgt = "y" -> ApplyY(st, op) [] op.tgt = "z" -> ApplyZ(st, op)

---------------------------------------------------------------------------
VARIABLES st, out, hist
vars == <<st, out, hist>>
Init == /\ \E x0 \in {s \in Iters : AllGood(s)} : st = St0(x0) /\ hist = <<Op("new", "x", 0, 0, x0)>>
        /\ out = [exc |-> "none", ret |-> NoRet]
Do(ops) == /\ Len(hist) <= MaxOps
           /\ \E op \in ops : LET r == Apply(st, op) IN
                 st' = r.st /\ out' = [exc |-> r.exc, ret |-> r.ret] /\ hist' = Append(hist, op)
\* one action per object a call is made on (TLC's coverage then tells whether each was exercised)
CallOnX == st.x \in Seq(Elems) /\ Do(OpsX)
CallOnY == st.hasY /\ Do(OpsY)
CallOnZ == st.hasZ /\ Do(OpsZ)
Next == CallOnX \/ CallOnY \/ CallOnZ
Spec == Init /\ [][Next]_vars

LastOp == hist[Len(hist)]
\* the container never holds an object it must refuse
OnlyGood == AllGood(st.x) /\ AllGood(st.y)
\* a refused call changes nothing
Atomic == [][out'.exc # "none" => st' = st]_vars
\* x, y and z are three separate lists: a call on one does not change another
Independent == [][ /\ (hist'[Len(hist')].tgt = "y" => st'.x = st.x /\ st'.z = st.z)
                   /\ (hist'[Len(hist')].tgt = "z" => st'.x = st.x /\ st'.y = st.y)
                   /\ (hist'[Len(hist')].tgt = "x" /\ hist'[Len(hist')].name \in {"append", "extend", "iadd", "imul", "insert", "setitem",
                                                                                "pop", "reverse", "extend_self", "iadd_self", "extend_y"}
                         => st'.y = st.y /\ st'.z = st.z) ]_vars
\* an accepted entry call leaves exactly the old elements and the supplied ones, in order
EntryKeepsAll == [][ LET op == hist'[Len(hist')] IN
                       out'.exc = "none" /\ op.tgt = "x" =>
                         CASE op.name \in {"extend", "iadd"} -> st'.x = st.x \o op.it
                           [] op.name = "add" -> st'.y = st.x \o op.it /\ st'.x = st.x
                           [] op.name = "append" -> st'.x = Append(st.x, op.e)
                           [] op.name = "insert" -> Len(st'.x) = Len(st.x) + 1 /\ \E p \in 0..Len(st.x) : st'.x = InsertAt(st.x, p, op.e)
                           [] op.name = "setitem" -> Len(st'.x) = Len(st.x) /\ \E k \in 0..(Len(st.x) - 1) : st'.x = SetAt(st.x, k, op.e)
                           [] OTHER -> TRUE ]_vars
\* lengths: *= n multiplies, pop removes one, filter(drop) splits
Lengths == [][ LET op == hist'[Len(hist')] IN
                 out'.exc = "none" /\ op.tgt = "x" =>
                   CASE op.name = "imul" -> Len(st'.x) = op.i * Len(st.x)
                     [] op.name = "mul" -> Len(st'.y) = op.i * Len(st.x)
                     [] op.name = "pop" -> Len(st'.x) = Len(st.x) - 1
                     [] op.name = "filter_drop" -> Len(st'.x) + Len(st'.y) = Len(st.x)
                     [] OTHER -> TRUE ]_vars

EmitCase == (EmitCases /\ Len(hist) = MaxOps + 1) => PrintT(<<"CASE", ToJson([ops |-> hist])>>)
=============================================================================
