----------------------------- MODULE TractParse -----------------------------
(***************************************************************************)
(* Parsing of a tract description made of lot groups and aliquot chains    *)
(* (pytrs/parser/tract/tract_parse.py :: TractParser.parse) - C06.         *)
(*                                                                         *)
(* A description is a sequence of elements with a separator between        *)
(* neighbours:                                                             *)
(*   LOT | LOTS_THRU | LOTS_AND | LOTAC (lot with acreage) |               *)
(*   DIV (aliquot of lot(s)) | ALQ (aliquot chain) | ALL                   *)
(*   separators COMMA ", "  SEMI "; "  NL (line break)                     *)
(* The code extracts lot groups first (an aliquot that is adjacent - only  *)
(* white space or "of" in between - becomes a lot division), replaces each *)
(* by ";;", then extracts aliquot chains (chains separated by white space  *)
(* only are one chain), then accepts "ALL" only when nothing follows it.   *)
(* Compositional(d) says when the result of the whole is the               *)
(* concatenation of the results of the elements; the two named deviations  *)
(* (line break after an aliquot chain; ALL followed by anything) are what  *)
(* the code does today (known findings F10, F12).                          *)
(***************************************************************************)
EXTENDS Naturals, Integers, Sequences, FiniteSets, TLC, Json

CONSTANTS MaxElems, Fault, EmitCases

Kinds == {"LOT", "LOTS_THRU", "LOTS_AND", "LOTAC", "DIV", "ALQ", "ALL"}
Seps == {"COMMA", "SEMI", "NL"}
IsLotKind(k) == k \in {"LOT", "LOTS_THRU", "LOTS_AND", "LOTAC"}

\* abstract yield of one element: how many lots / aliquot chains it contributes
NLots(k) == CASE k = "LOT" -> 1 [] k = "LOTS_THRU" -> 3 [] k = "LOTS_AND" -> 2 [] k = "LOTAC" -> 1 [] k = "DIV" -> 2 [] OTHER -> 0
NAlq(k) == IF k \in {"ALQ", "ALL"} THEN 1 ELSE 0

\* --- the extraction, on the element sequence ---------------------------------------
\* stage 1: an ALQ directly before a lot group with only white space between is swallowed as its division
SwallowedByLot(ks, ss, i) == i < Len(ks) /\ ks[i] = "ALQ" /\ ss[i] = "NL" /\ IsLotKind(ks[i + 1])
\* stage 2: an ALQ separated from the next ALQ by white space only continues the same chain
FusedWithNext(ks, ss, i) == i < Len(ks) /\ ks[i] = "ALQ" /\ ss[i] = "NL" /\ ks[i + 1] = "ALQ"
\* stage 3: ALL counts only when it is the last thing in the text (the first ALL is the one examined)
AllDropped(ks, i) == ks[i] = "ALL" /\ (i < Len(ks) \/ \E j \in 1..(i - 1) : ks[j] = "ALL")
Deviates(ks, ss, i) ==
  IF Fault = "comma_fuses" THEN (i < Len(ks) /\ ks[i] = "ALQ" /\ ks[i + 1] = "ALQ") \/ SwallowedByLot(ks, ss, i) \/ AllDropped(ks, i)
  ELSE SwallowedByLot(ks, ss, i) \/ FusedWithNext(ks, ss, i) \/ AllDropped(ks, i)
Compositional(ks, ss) == \A i \in 1..Len(ks) : ~Deviates(ks, ss, i)
\* what the property demands: elements separated by comma / semicolon / line break are independent.
\* the model's result counts (lots, chains) for the whole:
RECURSIVE ModelLots(_, _, _)
ModelLots(ks, ss, i) == IF i > Len(ks) THEN 0 ELSE NLots(ks[i]) + ModelLots(ks, ss, i + 1)
RECURSIVE ModelChains(_, _, _)
ModelChains(ks, ss, i) ==
  IF i > Len(ks) THEN 0
  ELSE (IF NAlq(ks[i]) = 1 /\ ~Deviates(ks, ss, i) THEN 1 ELSE 0) + ModelChains(ks, ss, i + 1)
RECURSIVE SumLots(_, _)
SumLots(ks, i) == IF i = 0 THEN 0 ELSE NLots(ks[i]) + SumLots(ks, i - 1)
RECURSIVE SumAlq(_, _)
SumAlq(ks, i) == IF i = 0 THEN 0 ELSE NAlq(ks[i]) + SumAlq(ks, i - 1)

VARIABLES kinds, seps, suppress, phase
vars == <<kinds, seps, suppress, phase>>
Init == kinds = <<>> /\ seps = <<>> /\ suppress \in BOOLEAN /\ phase = "choose"
Choose == /\ phase = "choose"
          /\ \E n \in 1..MaxElems : \E ks \in [1..n -> Kinds] : \E ss \in [1..(n - 1) -> Seps] : kinds' = ks /\ seps' = ss
          /\ phase' = "chosen" /\ UNCHANGED suppress
Spec == Init /\ [][Choose]_vars

\* with commas and semicolons only and no ALL before the end, the extraction is compositional
PunctuationSeparates ==
  phase = "chosen" /\ (\A i \in 1..Len(seps) : seps[i] # "NL") /\ (\A i \in 1..(Len(kinds) - 1) : kinds[i] # "ALL")
     => Compositional(kinds, seps) /\ ModelChains(kinds, seps, 1) = SumAlq(kinds, Len(kinds))
LotsNeverLost == phase = "chosen" => ModelLots(kinds, seps, 1) = SumLots(kinds, Len(kinds))
DeviationsAreNamed ==
  phase = "chosen" /\ ~Compositional(kinds, seps) =>
     \E i \in 1..Len(kinds) : (kinds[i] = "ALQ" /\ i <= Len(seps) /\ seps[i] = "NL") \/ kinds[i] = "ALL"

EmitCase == (EmitCases /\ phase = "chosen") =>
   PrintT(<<"CASE", ToJson([kinds |-> kinds, seps |-> seps, suppress |-> suppress, compositional |-> Compositional(kinds, seps)])>>)
=============================================================================
