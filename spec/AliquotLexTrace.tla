-------------------------- MODULE AliquotLexTrace --------------------------
(***************************************************************************)
(* Trace validation for C07.  One record per written chain:                *)
(*  {"id", "w": [{kind, class}], "js": [joiner], "clean", "dirs": [letters]*)
(*   "pp": [symbol tokens of the normalised text, "?" for other text],     *)
(*   "same": results (lots, aliquots, whole aliquots) equal those of the   *)
(*           canonical spelling under every tried configuration,           *)
(*   "fixed": normalising / parsing the normalised text changes nothing,   *)
(*   "bare": [per component: did a bare quarter yield an aliquot], "exc"}  *)
(***************************************************************************)
EXTENDS AliquotLex, IOUtils

VARIABLE l
Trace == JsonDeserialize(IOEnv.TRACE_FILE)
tvars == <<vars, l>>
TraceInit == l = 1 /\ w = <<>> /\ js = <<>> /\ clean = FALSE /\ phase = "trace" /\ st = <<>> /\ jn = <<>> /\ round = 0
Consume == /\ l <= Len(Trace) /\ l' = l + 1
           /\ w' = Trace[l].w /\ js' = Trace[l].js /\ clean' = Trace[l].clean /\ phase' = "observed"
           /\ UNCHANGED <<st, jn, round>>
TraceSpec == TraceInit /\ [][Consume]_tvars
Rec == Trace[l - 1]

Symbol(c, d) == IF c.kind = "H" THEN <<d, "½">> ELSE <<d, "¼">>
Canon(r) == [i \in 1..Len(r.w) |-> Symbol(r.w[i], r.dirs[i])]
HasBare(r) == \E i \in 1..Len(r.w) : r.w[i].class = "BAREQ"
\* When is a bare quarter read as an aliquot?  Under clean_qq always; otherwise when it follows a half
\* (through bare quarters only) that itself stands at a word boundary or after another half - glued behind a
\* quarter ('NW¼N½ se') the half does not license it (that case is left open: no demand either way).
RECURSIVE LicensingHalf(_, _)
LicensingHalf(wd, i) == IF wd[i - 1].kind = "H" THEN i - 1 ELSE LicensingHalf(wd, i - 1)
HalfUsable(r, h) == h = 1 \/ r.js[h - 1] # "NONE" \/ r.w[h - 1].kind = "H"
MustBeAliquot(r, i) == r.clean \/ (AfterHalf(r.w, i) /\ HalfUsable(r, LicensingHalf(r.w, i)))
MayBeAliquot(r, i) == Recognised(r.w, r.clean, i)
AllMust(r) == \A i \in 1..Len(r.w) : r.w[i].class # "BAREQ" \/ MustBeAliquot(r, i)
\* Verdict.  A chain all of whose components must be read as aliquots (fraction-bearing spellings, bare quarters
\* under clean_qq or after a usable half): the full claim.  Otherwise: a bare quarter is an aliquot only where
\* it may be, and is one where it must be; the fixed-point claim applies to every text.
Clause(r) ==
  IF r.exc # "none" THEN "exception_raised"
  ELSE IF AllMust(r) THEN
         (IF r.pp # Canon(r) THEN "normal_form_differs_from_canonical_text"
          ELSE IF ~r.same THEN "results_differ_from_canonical_spelling"
          ELSE IF ~r.fixed THEN "normalised_text_is_not_a_fixed_point"
          ELSE "ok")
  ELSE (IF \E i \in 1..Len(r.w) : r.w[i].class = "BAREQ" /\ r.bare[i] /\ ~MayBeAliquot(r, i)
        THEN "bare_quarter_treated_as_aliquot_without_clean_qq_or_half"
        ELSE IF \E i \in 1..Len(r.w) : r.w[i].class = "BAREQ" /\ ~r.bare[i] /\ MustBeAliquot(r, i)
        THEN "bare_quarter_after_half_not_treated_as_aliquot"
        ELSE IF ~r.fixed THEN "normalised_text_is_not_a_fixed_point" ELSE "ok")
\* Drift: in the case left open the code does not treat the bare quarter as an aliquot today
Drift == phase = "observed" =>
           \/ Rec.exc # "none" \/ ~HasBare(Rec)
           \/ \A i \in 1..Len(Rec.w) : Rec.w[i].class = "BAREQ" => Rec.bare[i] = MustBeAliquot(Rec, i)
           \/ PrintT(<<"INFO", "drift", Rec.id>>)
Verdict == phase = "observed" => (Clause(Rec) = "ok" \/ PrintT(<<"FAIL", Rec.id, Clause(Rec)>>))
AllConsumed ==
  /\ PrintT(<<"INFO", "consumed", TLCGet("stats").diameter - 1, Len(Trace)>>)
  /\ TLCGet("stats").diameter - 1 = Len(Trace)
=============================================================================
