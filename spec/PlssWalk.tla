------------------------------ MODULE PlssWalk ------------------------------
(***************************************************************************)
(* The PLSS parser proper (pytrs/parser/plssdesc/plss_parse.py), action by *)
(* action, on the token alphabet of PlssDesc.tla:                          *)
(*                                                                         *)
(*  Segment      PLSSChunker: with `segment` the text is cut into one      *)
(*               chunk per matching Twp/Rge (text before the first / after *)
(*               the last becomes an unused block); otherwise one chunk    *)
(*  FindMatches  ChunkParser.find_matches on the current chunk (its own    *)
(*               layout deduction unless the layout is mandated)           *)
(*  Prime        the "forward-looking" layouts stage a section / Twp/Rge   *)
(*  WalkStep     one marker of _parse_meaningful: stage the next Twp/Rge   *)
(*               or section, or decide whether the block after the marker  *)
(*               is a tract or unused text                                 *)
(*  AfterWalk    unused Twp/Rge / section error flags                      *)
(*  SecWithin    rebuild_sec_within on the chunk                           *)
(*  FallBack     no tract in the chunk: it is re-run as copy_all           *)
(*  EndChunk     hand the chunk's results to the parser, next chunk        *)
(*  Top          the parser-level rebuild_sec_within                       *)
(*  Finish       unused-text flags, Twp/Rge/Sec error flag                 *)
(*                                                                         *)
(* The model keeps the code's variables: working_twprge / working_sec with *)
(* their None (0) and error (-1) values, last_*_used, the working lists,   *)
(* tract_components and unused_components (chunk level and parser level).  *)
(* Token indexes are always positions in the whole text.                   *)
(***************************************************************************)
EXTENDS PlssDesc

VARIABLES play,       \* parser-level layout (forced or deduced from the whole text)
          cleaned,    \* the current chunk went through cleanup_desc()
          chunks,     \* remaining chunks: sequence of [lo, hi]
          nchunks,    \* how many chunks the text was cut into
          lo, hi,     \* the current chunk
          lay,        \* layout used for the current chunk
          mtr, msec,  \* token indexes: matched Twp/Rges, accepted sections (current chunk)
          k,          \* walk position: index into Markers
          wtr, wsec,  \* working_twprge / working_sec:  0 = None, -1 = error value, else token index
          ltr, lsec,  \* working lists (sequences of token indexes)
          utr, usec,  \* last_twprge_used, last_sec_used
          comps,      \* chunk: tract_components, sequence of [blk, sec, tr, first]
          unused,     \* chunk: unused_components, sequence of [n, blk]
          eflags,     \* chunk: staged error flags (kinds)
          gcomps, gunused, geflags,   \* parser level
          fell,       \* the result is one tract holding the whole text
          wphase
wvars == <<vars, play, cleaned, chunks, nchunks, lo, hi, lay, mtr, msec, k, wtr, wsec, ltr, lsec, utr, usec, comps, unused, eflags,
           gcomps, gunused, geflags, fell, wphase>>

SDescLays == {"TRS_desc", "S_desc_TR"}
TRFirstLays == {"TRS_desc", "TR_desc_S"}
TRIdx(s) == {i \in 1..Len(s) : s[i].t = "TR"}
SeqOf(S) == LET RECURSIVE F(_, _)
                F(T, acc) == IF T = {} THEN acc ELSE LET x == CHOOSE y \in T : \A z \in T : y <= z IN F(T \ {x}, Append(acc, x))
            IN F(S, <<>>)

\* --- find_matches -----------------------------------------------------------------
\* TRS_desc / S_desc_TR: a Twp/Rge is ignored when the rightmost section before it is followed by a
\* connector and a Twp/Rge ("... Section 4 of T154N-R97W ...") - including any later Twp/Rge after the same section
RightmostSecBefore(s, i) == IF \E q \in 1..(i - 1) : s[q].t = "SEC"
                            THEN CHOOSE q \in 1..(i - 1) : s[q].t = "SEC" /\ \A m \in (q + 1)..(i - 1) : s[m].t # "SEC"
                            ELSE 0
IgnoredTR(s, i, layout) ==
  /\ layout \in SDescLays
  /\ LET q == RightmostSecBefore(s, i)
     IN q # 0 /\ q + 2 <= i /\ IsTxt(s[q + 1]) /\ s[q + 1].k \in {"OF", "COMMA"} /\ s[q + 2].t = "TR"
MatchedTR(s, layout) == {i \in TRIdx(s) : ~IgnoredTR(s, i, layout)}

\* --- warning flags of the two finders (kinds; they travel with the chunk's staged flags) ---------------
WKinds == {"twprge_ignored", "sec_ignored", "multisec_ignored", "multisec_found", "pulled_sec_without_colon", "sec_within"}
IsW(f) == f \in WKinds
TRWarn(s, l) == [j \in 1..Cardinality({i \in TRIdx(s) : IgnoredTR(s, i, l)}) |-> "twprge_ignored"]
\* one pass of the section finder: a rejected section is reported as ignored, an accepted list as found
RECURSIVE SecPassWarn(_, _, _, _)
SecPassWarn(s, i, l, second) ==
  IF i > Len(s) THEN <<>>
  ELSE IF s[i].t # "SEC" THEN SecPassWarn(s, i + 1, l, second)
  ELSE LET rej == IF second THEN RejectedSecondPass(s, i, l) ELSE RejectedFirstPass(s, i, l, Cfg.colon)
       IN (IF rej THEN <<IF s[i].multi THEN "multisec_ignored" ELSE "sec_ignored">>
           ELSE IF s[i].multi THEN <<"multisec_found">> ELSE <<>>) \o SecPassWarn(s, i + 1, l, second)
SecondPassNeeded(s, l, colon) == colon = "cautious" /\ ColonRuleApplies(l) /\ {i \in SecIdx(s) : ~RejectedFirstPass(s, i, l, colon)} = {}
SecWarn(s, l) ==
  IF ~SecondPassNeeded(s, l, Cfg.colon) THEN SecPassWarn(s, 1, l, FALSE)
  ELSE SecPassWarn(s, 1, l, TRUE) \o (IF {i \in SecIdx(s) : ~RejectedSecondPass(s, i, l)} # {} THEN <<"pulled_sec_without_colon">> ELSE <<>>)
FinderWarn(s, l) == TRWarn(s, l) \o SecWarn(s, l)

\* --- PLSSChunker -------------------------------------------------------------------
\* cleanup_desc() on a chunk strips punctuation at both ends and the culled words (of, in, ...) at its end
RECURSIVE TrimHi(_, _)
TrimHi(a, b) == IF b >= a /\ IsTxt(toks[b]) /\ toks[b].k \in {"COMMA", "OF"} THEN TrimHi(a, b - 1) ELSE b
RECURSIVE TrimLo(_, _)
TrimLo(a, b) == IF a <= b /\ IsTxt(toks[a]) /\ toks[a].k = "COMMA" THEN TrimLo(a + 1, b) ELSE a
Trimmed(a, b) == [lo |-> TrimLo(a, TrimHi(a, b)), hi |-> TrimHi(a, b), cleaned |-> TRUE]
\* the chunks and the chunker's unused blocks for parser layout pl
ChunkerTRs(pl) == SeqOf(MatchedTR(toks, pl))
Chunking(pl) ==
  LET m == ChunkerTRs(pl)  n == Len(toks) IN
  IF ~Cfg.segment \/ pl = "copy_all" \/ m = <<>>
  THEN [chunks |-> <<[lo |-> 1, hi |-> n, cleaned |-> FALSE]>>, lead |-> <<>>, trail |-> <<>>]
  ELSE IF pl \in TRFirstLays
  THEN [chunks |-> [j \in 1..Len(m) |-> Trimmed(m[j], IF j < Len(m) THEN m[j + 1] - 1 ELSE n)],
        lead |-> [j \in 1..(m[1] - 1) |-> j], trail |-> <<>>]
  ELSE [chunks |-> [j \in 1..Len(m) |-> Trimmed(IF j = 1 THEN 1 ELSE m[j - 1] + 1, m[j])],
        lead |-> <<>>, trail |-> [j \in 1..(n - m[Len(m)]) |-> m[Len(m)] + j]]

\* --- markers of the current chunk ------------------------------------------------------
\* the chunk as a token sequence (local indexes 1..); cleanup_desc() also takes the colon off a section that ends it
CT == LET c == SubSeq(toks, lo, hi)
      IN IF cleaned /\ Len(c) > 0 /\ c[Len(c)].t = "SEC" THEN [c EXCEPT ![Len(c)].colon = FALSE] ELSE c
G(i) == i + lo - 1                              \* local -> position in the whole text
IsMarkerTok(i) == i \in mtr \/ i \in msec
MarkerToks == {i \in lo..hi : IsMarkerTok(i)}
NextMarkerAfter(i) == IF \E j \in MarkerToks : j > i THEN CHOOSE j \in MarkerToks : j > i /\ \A m \in MarkerToks : m > i => j <= m ELSE hi + 1
BlockAfter(i) == [j \in 1..(NextMarkerAfter(i) - i - 1) |-> i + j]       \* the block after position i (lo - 1 = chunk start)
StartType(i) == IF i \in msec THEN "SEC_START" ELSE "TWPRGE_START"
EndType(i) == IF i \in msec THEN "SEC_END" ELSE "TWPRGE_END"
RECURSIVE MarkersFrom(_)
MarkersFrom(i) ==      \* i: a marker token
  LET nx == NextMarkerAfter(i)
      nxt == IF nx <= hi THEN StartType(nx) ELSE IF i = hi THEN EndType(i) ELSE "TEXT_END"
  IN <<[type |-> StartType(i), tok |-> i, blk |-> <<>>, nexttype |-> EndType(i)],
       [type |-> EndType(i), tok |-> i, blk |-> BlockAfter(i), nexttype |-> nxt]>>
     \o (IF nx <= hi THEN MarkersFrom(nx) ELSE <<>>)
Markers ==
  LET first == NextMarkerAfter(lo - 1)
  IN (IF first = lo THEN <<>>
      ELSE <<[type |-> "TEXT_START", tok |-> 0, blk |-> BlockAfter(lo - 1),
              nexttype |-> IF first <= hi THEN StartType(first) ELSE "TEXT_END"]>>)
     \o (IF first <= hi THEN MarkersFrom(first) ELSE <<>>)

\* --- staging -----------------------------------------------------------------------
GetNextTR == [w |-> IF ltr # <<>> THEN Head(ltr) ELSE -1, l |-> IF ltr # <<>> THEN Tail(ltr) ELSE <<>>,
              flag |-> IF ~utr /\ wtr \notin {0, -1} THEN <<"twprge_error_item">> ELSE <<>>]
GetNextSec == [w |-> IF lsec # <<>> THEN Head(lsec) ELSE -1, l |-> IF lsec # <<>> THEN Tail(lsec) ELSE <<>>,
               flag |-> IF ~usec /\ wsec \notin {0, -1} THEN <<"sec_error_item">> ELSE <<>>]

ChunkVarsUnchanged == UNCHANGED <<lay, mtr, msec, k, wtr, wsec, ltr, lsec, utr, usec, comps, unused, eflags>>
WInit == /\ Init /\ play = "none" /\ cleaned = FALSE /\ chunks = <<>> /\ nchunks = 0 /\ lo = 1 /\ hi = 0
         /\ lay = "none" /\ mtr = {} /\ msec = {} /\ k = 0 /\ wtr = 0 /\ wsec = 0 /\ ltr = <<>> /\ lsec = <<>>
         /\ utr = FALSE /\ usec = FALSE /\ comps = <<>> /\ unused = <<>> /\ eflags = <<>>
         /\ gcomps = <<>> /\ gunused = <<>> /\ geflags = <<>> /\ fell = FALSE /\ wphase = "idle"
WChoose == /\ Choose /\ wphase' = "segment"
           /\ ChunkVarsUnchanged /\ UNCHANGED <<play, cleaned, chunks, nchunks, lo, hi, gcomps, gunused, geflags, fell>>
Segment ==
  /\ wphase = "segment"
  /\ LET pl == Effective(toks, Cfg)
         c == Chunking(pl)
     IN /\ play' = pl
        /\ chunks' = Tail(c.chunks) /\ nchunks' = Len(c.chunks)
        /\ lo' = c.chunks[1].lo /\ hi' = c.chunks[1].hi /\ cleaned' = c.chunks[1].cleaned
        /\ gunused' = (IF c.lead # <<>> THEN <<[n |-> 0, blk |-> c.lead]>> ELSE <<>>)
                      \o (IF c.trail # <<>> THEN <<[n |-> 1, blk |-> c.trail]>> ELSE <<>>)
  /\ wphase' = "find"
  /\ ChunkVarsUnchanged /\ UNCHANGED <<vars, gcomps, geflags, fell>>
FindMatches ==
  /\ wphase = "find"
  /\ LET mandated == ~Cfg.segment /\ Cfg.forced # "none"
         l0 == IF play = "copy_all" THEN "copy_all" ELSE IF mandated THEN play ELSE Deduce(CT)
     IN /\ lay' = l0
        /\ mtr' = {G(i) : i \in (IF l0 = "copy_all" THEN TRIdx(CT) ELSE MatchedTR(CT, l0))}
        /\ msec' = {G(i) : i \in (IF l0 = "copy_all" THEN SecIdx(CT) ELSE Accepted(CT, l0, Cfg.colon))}
        /\ wphase' = IF l0 = "copy_all" THEN "fallback" ELSE "prime"
  /\ k' = 0 /\ wtr' = 0 /\ wsec' = 0 /\ ltr' = <<>> /\ lsec' = <<>> /\ utr' = FALSE /\ usec' = FALSE
  /\ comps' = <<>> /\ unused' = <<>>
  /\ eflags' = (LET mandated == ~Cfg.segment /\ Cfg.forced # "none"
                    l0 == IF play = "copy_all" THEN "copy_all" ELSE IF mandated THEN play ELSE Deduce(CT)
                IN FinderWarn(CT, l0))
  /\ UNCHANGED <<vars, play, cleaned, chunks, nchunks, lo, hi, gcomps, gunused, geflags, fell>>
Prime ==
  /\ wphase = "prime"
  /\ LET ls0 == SeqOf(msec)  lt0 == SeqOf(mtr)
         primesec == lay \notin SDescLays
         primetr == lay \notin TRFirstLays
     IN /\ wsec' = IF primesec THEN (IF ls0 # <<>> THEN Head(ls0) ELSE -1) ELSE 0
        /\ lsec' = IF primesec /\ ls0 # <<>> THEN Tail(ls0) ELSE ls0
        /\ wtr' = IF primetr THEN (IF lt0 # <<>> THEN Head(lt0) ELSE -1) ELSE 0
        /\ ltr' = IF primetr /\ lt0 # <<>> THEN Tail(lt0) ELSE lt0
  /\ k' = 1 /\ wphase' = "walk"
  /\ UNCHANGED <<vars, play, cleaned, chunks, nchunks, lo, hi, lay, mtr, msec, utr, usec, comps, unused, eflags, gcomps, gunused, geflags, fell>>
WalkStep ==
  /\ wphase = "walk" /\ k <= Len(Markers)
  /\ LET m == Markers[k] IN
       CASE m.type = "TWPRGE_START" ->
              /\ wtr' = GetNextTR.w /\ ltr' = GetNextTR.l /\ eflags' = eflags \o GetNextTR.flag /\ utr' = FALSE
              /\ UNCHANGED <<wsec, lsec, usec, comps, unused>>
         [] m.type = "SEC_START" ->
              /\ wsec' = GetNextSec.w /\ lsec' = GetNextSec.l /\ eflags' = eflags \o GetNextSec.flag /\ usec' = FALSE
              /\ UNCHANGED <<wtr, ltr, utr, comps, unused>>
         [] OTHER ->
              IF (lay \in SDescLays /\ m.type = "SEC_END") \/ (lay \notin SDescLays /\ m.nexttype = "SEC_START")
              THEN /\ comps' = Append(comps, [blk |-> m.blk, sec |-> wsec, tr |-> wtr, first |-> FALSE])
                   /\ usec' = TRUE /\ utr' = TRUE /\ wsec' = -1
                   /\ UNCHANGED <<wtr, ltr, lsec, unused, eflags>>
              ELSE /\ unused' = (IF Fault = "drop_unused" /\ m.type = "TWPRGE_END" THEN unused
                                 ELSE Append(unused, [n |-> Len(comps), blk |-> m.blk]))
                   /\ UNCHANGED <<wtr, wsec, ltr, lsec, utr, usec, comps, eflags>>
  /\ k' = k + 1
  /\ UNCHANGED <<vars, play, cleaned, chunks, nchunks, lo, hi, lay, mtr, msec, gcomps, gunused, geflags, fell, wphase>>
AfterWalk ==
  /\ wphase = "walk" /\ k > Len(Markers)
  /\ LET lt1 == IF ~utr /\ wtr \notin {0, -1} THEN <<wtr>> \o ltr ELSE ltr
         ls1 == IF ~usec /\ wsec \notin {0, -1} THEN <<wsec>> \o lsec ELSE lsec
     IN eflags' = eflags \o [j \in 1..Len(lt1) |-> "unused_twprge"] \o [j \in 1..Len(ls1) |-> "unused_sec"]
  /\ wphase' = IF comps = <<>> THEN "fallback" ELSE IF Cfg.secwithin THEN "secwithin" ELSE "endchunk"
  /\ UNCHANGED <<vars, play, cleaned, chunks, nchunks, lo, hi, lay, mtr, msec, k, wtr, wsec, ltr, lsec, utr, usec, comps, unused,
                 gcomps, gunused, geflags, fell>>
\* rebuild_sec_within: exactly one tract: every reportable unused block is attached before / after its text
Reportable(blk) == \E j \in 1..Len(blk) : toks[blk[j]].t \in {"TR", "SEC", "SECW"} \/ (IsTxt(toks[blk[j]]) /\ toks[blk[j]].k \in {"LONG", "LONGOF"})
RECURSIVE Attach(_, _, _)
Attach(us, j, b) == IF j > Len(us) THEN b
                    ELSE IF ~Reportable(us[j].blk) THEN Attach(us, j + 1, b)
                    ELSE IF us[j].n = 0 THEN Attach(us, j + 1, us[j].blk \o b)
                    ELSE Attach(us, j + 1, b \o us[j].blk)
SecWithin ==
  /\ wphase = "secwithin"
  /\ IF Len(comps) # 1 THEN UNCHANGED <<comps, unused>>
     ELSE /\ comps' = <<[comps[1] EXCEPT !.blk = Attach(unused, 1, comps[1].blk)]>>
          /\ unused' = <<>>
  \* (a tract whose text was put together again is reported with a sec_within warning)
  /\ eflags' = eflags \o (IF Len(comps) = 1 /\ Attach(unused, 1, comps[1].blk) # comps[1].blk THEN <<"sec_within">> ELSE <<>>)
  /\ wphase' = "endchunk"
  /\ UNCHANGED <<vars, play, cleaned, chunks, nchunks, lo, hi, lay, mtr, msec, k, wtr, wsec, ltr, lsec, utr, usec,
                 gcomps, gunused, geflags, fell>>
\* no tract: the chunk is parsed again as copy_all (first section number only); its staged flags replace the chunk's
FallBack ==
  /\ wphase = "fallback"
  /\ LET secs == SeqOf({G(i) : i \in SecIdx(CT)})  trs == SeqOf({G(i) : i \in TRIdx(CT)})
         one == [blk |-> [j \in 1..(hi - lo + 1) |-> lo + j - 1], sec |-> IF secs # <<>> THEN Head(secs) ELSE -1,
                 tr |-> IF trs # <<>> THEN Head(trs) ELSE -1, first |-> TRUE]
     IN comps' = IF Fault = "double_handoff" /\ lay # "copy_all" THEN <<one, one>> ELSE <<one>>
  /\ unused' = <<>> /\ eflags' = FinderWarn(CT, "copy_all") /\ wphase' = "endchunk"
  /\ fell' = (nchunks = 1 /\ lo = 1 /\ hi = Len(toks))
  /\ UNCHANGED <<vars, play, cleaned, chunks, nchunks, lo, hi, lay, mtr, msec, k, wtr, wsec, ltr, lsec, utr, usec, gcomps, gunused, geflags>>
EndChunk ==
  /\ wphase = "endchunk"
  /\ gcomps' = gcomps \o comps /\ gunused' = gunused \o unused /\ geflags' = geflags \o eflags
  /\ IF chunks = <<>> THEN wphase' = "top" /\ UNCHANGED <<chunks, lo, hi, cleaned>>
     ELSE wphase' = "find" /\ lo' = chunks[1].lo /\ hi' = chunks[1].hi /\ cleaned' = chunks[1].cleaned /\ chunks' = Tail(chunks)
  /\ ChunkVarsUnchanged /\ UNCHANGED <<vars, play, nchunks, fell>>
Top ==
  /\ wphase = "top"
  /\ IF Cfg.secwithin /\ Len(gcomps) = 1
     THEN /\ gcomps' = <<[gcomps[1] EXCEPT !.blk = Attach(gunused, 1, gcomps[1].blk)]>> /\ gunused' = <<>>
          /\ geflags' = geflags \o (IF Attach(gunused, 1, gcomps[1].blk) # gcomps[1].blk /\ ~\E j \in 1..Len(geflags) : geflags[j] = "sec_within"
                                     THEN <<"sec_within">> ELSE <<>>)
     ELSE UNCHANGED <<gcomps, gunused, geflags>>
  /\ wphase' = "finish"
  /\ ChunkVarsUnchanged /\ UNCHANGED <<vars, play, cleaned, chunks, nchunks, lo, hi, fell>>
Finish ==
  /\ wphase = "finish"
  /\ geflags' = geflags \o [j \in 1..Len(SelectSeq(gunused, LAMBDA u : Reportable(u.blk))) |-> "unused_desc"]
                        \o (IF \E j \in 1..Len(gcomps) : gcomps[j].sec <= 0 \/ gcomps[j].tr <= 0 THEN <<"twprge_error">> ELSE <<>>)
  /\ wphase' = "done"
  /\ ChunkVarsUnchanged /\ UNCHANGED <<vars, play, cleaned, chunks, nchunks, lo, hi, gcomps, gunused, fell>>
WNext == WChoose \/ Segment \/ FindMatches \/ Prime \/ WalkStep \/ AfterWalk \/ SecWithin \/ FallBack \/ EndChunk \/ Top \/ Finish
WSpec == WInit /\ [][WNext]_wvars

\* --- what the parser guarantees (design level) -------------------------------------------
LongToks == {i \in 1..Len(toks) : IsTxt(toks[i]) /\ toks[i].k \in {"LONG", "LONGOF"}}
InBlocks(seqOfRecs) == UNION {{seqOfRecs[j].blk[m] : m \in 1..Len(seqOfRecs[j].blk)} : j \in 1..Len(seqOfRecs)}
ReportableUnused == SelectSeq(gunused, LAMBDA u : Reportable(u.blk))
\* C04 at design level: every long text token is in a tract or in a reported unused block
Conservation == wphase = "done" => LongToks \subseteq (InBlocks(gcomps) \cup InBlocks(ReportableUnused))
\* C03 / C11 at design level
AtLeastOneTractW == wphase = "done" => Len(gcomps) >= 1
FallBackIsWhole == wphase = "done" /\ fell => Len(gcomps) = 1 /\ Len(gcomps[1].blk) = Len(toks)
MustFallBackAgrees == wphase = "done" /\ MustFallBack(toks, Cfg) => fell
\* C20 at design level: on text cut into chunks, no chunk's tract takes text of another chunk
ChunksDisjoint == wphase = "done" /\ ~Cfg.secwithin => \A a, b \in 1..Len(gcomps) : a < b =>
                    {gcomps[a].blk[m] : m \in 1..Len(gcomps[a].blk)} \cap {gcomps[b].blk[m] : m \in 1..Len(gcomps[b].blk)} = {}

\* projection used for the comparison with the implementation: one entry per tract component
ProjComps == [j \in 1..Len(gcomps) |->
                [tr |-> IF gcomps[j].tr > 0 THEN toks[gcomps[j].tr].v ELSE -1,
                 sec |-> IF gcomps[j].tr = 0 THEN -1 ELSE IF gcomps[j].sec > 0 THEN gcomps[j].sec ELSE -1,
                 toksec |-> IF gcomps[j].sec > 0 THEN gcomps[j].sec ELSE 0,
                 first |-> gcomps[j].first,
                 marks |-> SelectSeq(gcomps[j].blk, LAMBDA i : i \in LongToks)]]
ProjUnused == [j \in 1..Len(ReportableUnused) |-> SelectSeq(ReportableUnused[j].blk, LAMBDA i : i \in LongToks)]
WCase == [toks |-> toks, cfgname |-> cfgname, cfg |-> Cfg, lay |-> play, fell |-> fell, nchunks |-> nchunks,
          comps |-> ProjComps, unused |-> ProjUnused, eflags |-> SelectSeq(geflags, LAMBDA f : ~IsW(f)),
          wflags |-> SelectSeq(geflags, IsW),
          x |-> [forced_copy_all |-> Cfg.forced = "copy_all", must_fall_back |-> MustFallBack(toks, Cfg), both_found |-> BothFound(toks)]]
EmitWalk == (EmitCases /\ wphase = "done") => PrintT(<<"CASE", ToJson(WCase)>>)
=============================================================================
