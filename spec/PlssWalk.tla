------------------------------ MODULE PlssWalk ------------------------------
(***************************************************************************)
(* The chunk parser's marker walk (pytrs/parser/plssdesc/plss_parse.py ::  *)
(* ChunkParser.find_matches / populate_markers / _parse_meaningful /       *)
(* parse_chunk and PLSSParser.construct_tracts / examine_unused), action   *)
(* by action, on the token alphabet of PlssDesc.tla (one chunk = the whole *)
(* text, i.e. without `segment`).                                          *)
(*                                                                         *)
(*  FindMatches   which Twp/Rges and sections count as markers             *)
(*  Prime         the "forward-looking" layouts stage a section / Twp/Rge  *)
(*                before the walk                                          *)
(*  WalkStep      one marker: stage the next Twp/Rge or section, or decide *)
(*                whether the block after the marker is a tract or unused  *)
(*  AfterWalk     unused Twp/Rge / section error flags                     *)
(*  SecWithin     re-attach unused blocks to a single tract                *)
(*  FallBack      no tract: the chunk is re-run as copy_all                *)
(*  Finish        tracts per section number, unused-text flags             *)
(* The model keeps the code's variables: working_twprge / working_sec with *)
(* their None and error values, last_*_used, the working lists,            *)
(* tract_components and unused_components.                                 *)
(***************************************************************************)
EXTENDS PlssDesc

VARIABLES lay,        \* effective layout of the chunk
          mtr, msec,  \* sets of token indexes: matched Twp/Rges, accepted sections
          k,          \* walk position: index into Markers
          wtr, wsec,  \* working_twprge / working_sec:  0 = None, -1 = error value, else token index
          ltr, lsec,  \* working lists (sequences of token indexes)
          utr, usec,  \* last_twprge_used, last_sec_used
          comps,      \* tract_components: sequence of [blk, sec, tr]
          unused,     \* unused_components: sequence of [n, blk]
          eflags,     \* error flags raised so far (kinds)
          fell,       \* the copy_all fallback was taken
          wphase
wvars == <<vars, lay, mtr, msec, k, wtr, wsec, ltr, lsec, utr, usec, comps, unused, eflags, fell, wphase>>

SDescLays == {"TRS_desc", "S_desc_TR"}
TRFirstLays == {"TRS_desc", "TR_desc_S"}
TRIdx(s) == {i \in 1..Len(s) : s[i].t = "TR"}

\* --- find_matches -----------------------------------------------------------------
\* TRS_desc / S_desc_TR: a Twp/Rge is ignored when the rightmost section before it is followed by a
\* connector and a Twp/Rge ("... Section 4 of T154N-R97W ...") - including any later Twp/Rge after the same section
RightmostSecBefore(s, i) == IF \E q \in 1..(i - 1) : s[q].t = "SEC"
                            THEN CHOOSE q \in 1..(i - 1) : s[q].t = "SEC" /\ \A m \in (q + 1)..(i - 1) : s[m].t # "SEC"
                            ELSE 0
IgnoredTR(s, i, layout) ==
  /\ layout \in SDescLays
  /\ LET q == RightmostSecBefore(s, i)
     IN q # 0 /\ q + 2 <= i /\ IsTxt(s[q + 1]) /\ s[q + 1].k \in {"OF", "COMMA"} /\ s[q + 2].t = "TR"
MatchedTR(s, layout) == {i \in TRIdx(s) : ~IgnoredTR(s, i, layout)}

\* --- markers ----------------------------------------------------------------------
IsMarkerTok(i) == i \in mtr \/ i \in msec
\* the blocks: tokens strictly between consecutive marker tokens
MarkerToks == {i \in 1..Len(toks) : IsMarkerTok(i)}
NextMarkerAfter(i) == IF \E j \in MarkerToks : j > i THEN CHOOSE j \in MarkerToks : j > i /\ \A m \in MarkerToks : m > i => j <= m ELSE Len(toks) + 1
BlockAfter(i) == [j \in 1..(NextMarkerAfter(i) - i - 1) |-> i + j]       \* token indexes of the block after position i (0 = text start)
\* the marker list in walk order: records [type, tok, blk, nexttype]
StartType(i) == IF i \in msec THEN "SEC_START" ELSE "TWPRGE_START"
EndType(i) == IF i \in msec THEN "SEC_END" ELSE "TWPRGE_END"
RECURSIVE MarkersFrom(_)
MarkersFrom(i) ==      \* i: a marker token
  LET nx == NextMarkerAfter(i)
      nxt == IF nx <= Len(toks) THEN StartType(nx) ELSE IF i = Len(toks) THEN EndType(i) ELSE "TEXT_END"
  IN <<[type |-> StartType(i), tok |-> i, blk |-> <<>>, nexttype |-> EndType(i)],
       [type |-> EndType(i), tok |-> i, blk |-> BlockAfter(i), nexttype |-> nxt]>>
     \o (IF nx <= Len(toks) THEN MarkersFrom(nx) ELSE <<>>)
Markers ==
  LET first == NextMarkerAfter(0)
  IN (IF first = 1 THEN <<>>
      ELSE <<[type |-> "TEXT_START", tok |-> 0, blk |-> BlockAfter(0),
              nexttype |-> IF first <= Len(toks) THEN StartType(first) ELSE "TEXT_END"]>>)
     \o (IF first <= Len(toks) THEN MarkersFrom(first) ELSE <<>>)

\* --- staging -----------------------------------------------------------------------
\* get_next_twprge / get_next_sec as (new working value, new list, error flag or none)
GetNextTR == [w |-> IF ltr # <<>> THEN Head(ltr) ELSE -1, l |-> IF ltr # <<>> THEN Tail(ltr) ELSE <<>>,
              flag |-> IF ~utr /\ wtr \notin {0, -1} THEN <<"twprge_error_item">> ELSE <<>>]
GetNextSec == [w |-> IF lsec # <<>> THEN Head(lsec) ELSE -1, l |-> IF lsec # <<>> THEN Tail(lsec) ELSE <<>>,
               flag |-> IF ~usec /\ wsec \notin {0, -1} THEN <<"sec_error_item">> ELSE <<>>]

WInit == /\ Init /\ lay = "none" /\ mtr = {} /\ msec = {} /\ k = 0 /\ wtr = 0 /\ wsec = 0 /\ ltr = <<>> /\ lsec = <<>>
         /\ utr = FALSE /\ usec = FALSE /\ comps = <<>> /\ unused = <<>> /\ eflags = <<>> /\ fell = FALSE /\ wphase = "idle"
WChoose == /\ Choose /\ wphase' = "find"
           /\ UNCHANGED <<lay, mtr, msec, k, wtr, wsec, ltr, lsec, utr, usec, comps, unused, eflags, fell>>
FindMatches ==
  /\ wphase = "find"
  /\ LET l0 == Effective(toks, Cfg) IN
       /\ lay' = l0
       /\ mtr' = IF l0 = "copy_all" THEN TRIdx(toks) ELSE MatchedTR(toks, l0)
       /\ msec' = IF l0 = "copy_all" THEN SecIdx(toks) ELSE Accepted(toks, l0, Cfg.colon)
  /\ wphase' = IF Effective(toks, Cfg) = "copy_all" THEN "fallback" ELSE "prime"
  /\ UNCHANGED <<vars, k, wtr, wsec, ltr, lsec, utr, usec, comps, unused, eflags, fell>>
SeqOf(S) == LET RECURSIVE F(_, _)
                F(T, acc) == IF T = {} THEN acc ELSE LET x == CHOOSE y \in T : \A z \in T : y <= z IN F(T \ {x}, Append(acc, x))
            IN F(S, <<>>)
Prime ==
  /\ wphase = "prime"
  /\ LET ls0 == SeqOf(msec)  lt0 == SeqOf(mtr)
         primesec == lay \notin SDescLays
         primetr == lay \notin TRFirstLays
     IN /\ wsec' = IF primesec THEN (IF ls0 # <<>> THEN Head(ls0) ELSE -1) ELSE 0
        /\ lsec' = IF primesec /\ ls0 # <<>> THEN Tail(ls0) ELSE ls0
        /\ wtr' = IF primetr THEN (IF lt0 # <<>> THEN Head(lt0) ELSE -1) ELSE 0
        /\ ltr' = IF primetr /\ lt0 # <<>> THEN Tail(lt0) ELSE lt0
  /\ k' = 1 /\ wphase' = "walk"
  /\ UNCHANGED <<vars, lay, mtr, msec, utr, usec, comps, unused, eflags, fell>>
WalkStep ==
  /\ wphase = "walk" /\ k <= Len(Markers)
  /\ LET m == Markers[k] IN
       CASE m.type = "TWPRGE_START" ->
              /\ wtr' = GetNextTR.w /\ ltr' = GetNextTR.l /\ eflags' = eflags \o GetNextTR.flag /\ utr' = FALSE
              /\ UNCHANGED <<wsec, lsec, usec, comps, unused>>
         [] m.type = "SEC_START" ->
              /\ wsec' = GetNextSec.w /\ lsec' = GetNextSec.l /\ eflags' = eflags \o GetNextSec.flag /\ usec' = FALSE
              /\ UNCHANGED <<wtr, ltr, utr, comps, unused>>
         [] OTHER ->
              IF (lay \in SDescLays /\ m.type = "SEC_END") \/ (lay \notin SDescLays /\ m.nexttype = "SEC_START")
              THEN /\ comps' = Append(comps, [blk |-> m.blk, sec |-> wsec, tr |-> wtr])
                   /\ usec' = TRUE /\ utr' = TRUE /\ wsec' = -1
                   /\ UNCHANGED <<wtr, ltr, lsec, unused, eflags>>
              ELSE /\ unused' = (IF Fault = "drop_unused" /\ m.type = "TWPRGE_END" THEN unused
                               ELSE Append(unused, [n |-> Len(comps), blk |-> m.blk]))
                   /\ UNCHANGED <<wtr, wsec, ltr, lsec, utr, usec, comps, eflags>>
  /\ k' = k + 1
  /\ UNCHANGED <<vars, lay, mtr, msec, fell, wphase>>
AfterWalk ==
  /\ wphase = "walk" /\ k > Len(Markers)
  /\ LET lt1 == IF ~utr /\ wtr \notin {0, -1} THEN <<wtr>> \o ltr ELSE ltr
         ls1 == IF ~usec /\ wsec \notin {0, -1} THEN <<wsec>> \o lsec ELSE lsec
     IN eflags' = eflags \o [j \in 1..Len(lt1) |-> "unused_twprge"] \o [j \in 1..Len(ls1) |-> "unused_sec"]
  /\ wphase' = IF comps = <<>> THEN "fallback" ELSE IF Cfg.secwithin THEN "secwithin" ELSE "finish"
  /\ UNCHANGED <<vars, lay, mtr, msec, k, wtr, wsec, ltr, lsec, utr, usec, comps, unused, fell>>
\* rebuild_sec_within: exactly one tract: every reportable unused block is attached before / after its text
Reportable(blk) == \E j \in 1..Len(blk) : toks[blk[j]].t \in {"TR", "SEC", "SECW"} \/ (IsTxt(toks[blk[j]]) /\ toks[blk[j]].k \in {"LONG", "LONGOF"})
SecWithin ==
  /\ wphase = "secwithin"
  /\ IF Len(comps) # 1 THEN UNCHANGED <<comps, unused>>
     ELSE LET RECURSIVE Attach(_, _)
              Attach(j, b) == IF j > Len(unused) THEN b
                              ELSE IF ~Reportable(unused[j].blk) THEN Attach(j + 1, b)
                              ELSE IF unused[j].n = 0 THEN Attach(j + 1, unused[j].blk \o b)
                              ELSE Attach(j + 1, b \o unused[j].blk)
          IN /\ comps' = <<[comps[1] EXCEPT !.blk = Attach(1, comps[1].blk)]>>
             /\ unused' = <<>>
  /\ wphase' = "finish"
  /\ UNCHANGED <<vars, lay, mtr, msec, k, wtr, wsec, ltr, lsec, utr, usec, eflags, fell>>
\* no tract: the chunk is parsed again as copy_all; its staged flags replace the chunk's
FallBack ==
  /\ wphase = "fallback"
  /\ LET secs == SeqOf(SecIdx(toks))  trs == SeqOf(TRIdx(toks))
         one == [blk |-> [j \in 1..Len(toks) |-> j], sec |-> IF secs # <<>> THEN Head(secs) ELSE -1,
                 tr |-> IF trs # <<>> THEN Head(trs) ELSE -1]
     IN comps' = IF Fault = "double_handoff" /\ Effective(toks, Cfg) # "copy_all" THEN <<one, one>> ELSE <<one>>
  /\ unused' = <<>> /\ eflags' = <<>> /\ fell' = TRUE /\ wphase' = "finish"
  /\ UNCHANGED <<vars, lay, mtr, msec, k, wtr, wsec, ltr, lsec, utr, usec>>
Finish ==
  /\ wphase = "finish"
  /\ eflags' = eflags \o [j \in 1..Len(SelectSeq(unused, LAMBDA u : Reportable(u.blk))) |-> "unused_desc"]
                      \o (IF \E j \in 1..Len(comps) : comps[j].sec <= 0 \/ comps[j].tr <= 0 THEN <<"twprge_error">> ELSE <<>>)
  /\ wphase' = "done"
  /\ UNCHANGED <<vars, lay, mtr, msec, k, wtr, wsec, ltr, lsec, utr, usec, comps, unused, fell>>
WNext == WChoose \/ FindMatches \/ Prime \/ WalkStep \/ AfterWalk \/ SecWithin \/ FallBack \/ Finish
WSpec == WInit /\ [][WNext]_wvars

\* --- what the walk guarantees (design level) -------------------------------------------
LongToks == {i \in 1..Len(toks) : IsTxt(toks[i]) /\ toks[i].k \in {"LONG", "LONGOF"}}
InBlocks(seqOfRecs) == UNION {{seqOfRecs[j].blk[m] : m \in 1..Len(seqOfRecs[j].blk)} : j \in 1..Len(seqOfRecs)}
\* C04 at design level: every long text token is in a tract or in a reportable unused block
Conservation == wphase = "done" => LongToks \subseteq (InBlocks(comps) \cup InBlocks(unused))
\* C03 / C11 at design level
AtLeastOneTractW == wphase = "done" => Len(comps) >= 1
FallBackIsWhole == wphase = "done" /\ fell => Len(comps) = 1 /\ Len(comps[1].blk) = Len(toks)
MustFallBackAgrees == wphase = "done" /\ ~Cfg.segment /\ MustFallBack(toks, Cfg) => fell
\* projection used for the comparison with the implementation: one entry per tract component
ProjComps == [j \in 1..Len(comps) |->
                [tr |-> IF comps[j].tr > 0 THEN toks[comps[j].tr].v ELSE -1,
                 sec |-> IF comps[j].tr = 0 THEN -1 ELSE IF comps[j].sec > 0 THEN comps[j].sec ELSE -1,
                 toksec |-> IF comps[j].sec > 0 THEN comps[j].sec ELSE 0,
                 marks |-> SelectSeq(comps[j].blk, LAMBDA i : i \in LongToks)]]
ProjUnused == LET rep == SelectSeq(unused, LAMBDA u : Reportable(u.blk))
              IN [j \in 1..Len(rep) |-> SelectSeq(rep[j].blk, LAMBDA i : i \in LongToks)]
WCase == [toks |-> toks, cfgname |-> cfgname, cfg |-> Cfg, lay |-> lay, fell |-> fell,
          comps |-> ProjComps, unused |-> ProjUnused,
          eflags |-> eflags,
          x |-> [forced_copy_all |-> Cfg.forced = "copy_all", must_fall_back |-> MustFallBack(toks, Cfg), both_found |-> BothFound(toks)]]
EmitWalk == (EmitCases /\ wphase = "done") => PrintT(<<"CASE", ToJson(WCase)>>)
=============================================================================
