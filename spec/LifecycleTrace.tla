-------------------------- MODULE LifecycleTrace --------------------------
(***************************************************************************)
(* Trace validation for C14.  The trace file is a sequence of events of    *)
(* many recorded call histories (each starts with a "new" event):          *)
(*  {"tid", "kind", "op": {name, commit, kw, cfg}, "snap": int, "ret": int,*)
(*   "exc"}                                                                *)
(* snap = hash of the projection of every public attribute of the object   *)
(* (and of each of its tracts) after the call; ret = hash of the returned  *)
(* value.  Each event is explained by Lifecycle!Apply; the binding is:     *)
(*   - objects in the same symbolic state have the same snapshot, across   *)
(*     all histories (fresh objects included);                             *)
(*   - calls with the same effective settings return the same value.       *)
(* An event that cannot be explained prints a FAIL line and the rest of    *)
(* that history is skipped (verdicts are total).                           *)
(***************************************************************************)
EXTENDS Lifecycle, IOUtils

VARIABLES l, failed, seenT, seenP, retT, retP
Trace == JsonDeserialize(IOEnv.TRACE_FILE)
tvars == <<vars, l, failed, seenT, seenP, retT, retP>>
Empty == [x \in {} |-> 0]

TraceInit == /\ l = 1 /\ failed = FALSE /\ kind = "tract" /\ sym = TractNew([clean |-> "F", depth |-> 2]) /\ hist = <<>>
             /\ seenT = Empty /\ seenP = Empty /\ retT = Empty /\ retP = Empty

Lookup(f, k, v) == IF k \in DOMAIN f THEN f[k] = v ELSE TRUE
Extend(f, k, v) == IF k \in DOMAIN f THEN f ELSE f @@ (k :> v)

Consume ==
  /\ l <= Len(Trace)
  /\ l' = l + 1 /\ hist' = <<>>
  /\ LET ev == Trace[l]
         isnew == ev.op.name = "new"
         k == ev.kind
         before == IF isnew THEN New(k, ev.op.cfg) ELSE sym
         after == IF isnew THEN New(k, ev.op.cfg) ELSE Apply(k, sym, ev.op)
         rk == Returns(k, before, ev.op)
         snapok == IF k = "tract" THEN Lookup(seenT, after, ev.snap) ELSE Lookup(seenP, after, ev.snap)
         retok == rk.what = "none" \/ (IF k = "tract" THEN Lookup(retT, rk, ev.ret) ELSE Lookup(retP, rk, ev.ret))
         clause == IF ev.exc # "none" THEN "exception_raised"
                   ELSE IF ~snapok THEN
                        (IF ~isnew /\ after = sym /\ ~ev.op.commit THEN "call_without_commit_changed_the_object"
                         ELSE IF ~isnew /\ after = sym THEN "repeating_a_call_with_unchanged_settings_changed_the_object"
                         ELSE "state_differs_from_other_object_with_same_settings")
                   ELSE IF ~retok THEN "returned_value_differs_for_same_effective_settings"
                   ELSE "ok"
         skip == failed /\ ~isnew
     IN /\ kind' = k
        /\ IF skip THEN UNCHANGED <<sym, failed, seenT, seenP, retT, retP>>
           ELSE /\ (IF clause = "ok" THEN TRUE ELSE PrintT(<<"FAIL", ev.tid, clause, ev.seq>>))
                /\ failed' = (clause # "ok")
                /\ sym' = after
                /\ seenT' = IF k = "tract" /\ clause = "ok" THEN Extend(seenT, after, ev.snap) ELSE seenT
                /\ seenP' = IF k = "plss" /\ clause = "ok" THEN Extend(seenP, after, ev.snap) ELSE seenP
                /\ retT' = IF k = "tract" /\ clause = "ok" /\ rk.what # "none" THEN Extend(retT, rk, ev.ret) ELSE retT
                /\ retP' = IF k = "plss" /\ clause = "ok" /\ rk.what # "none" THEN Extend(retP, rk, ev.ret) ELSE retP
TraceSpec == TraceInit /\ [][Consume]_tvars

AllConsumed ==
  /\ PrintT(<<"INFO", "consumed", TLCGet("stats").diameter - 1, Len(Trace)>>)
  /\ TLCGet("stats").diameter - 1 = Len(Trace)
=============================================================================
