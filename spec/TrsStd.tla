------------------------------- MODULE TrsStd -------------------------------
(***************************************************************************)
(* The pyTRS standard form of a Twp/Rge/Sec ('154n97w14') and the code     *)
(* that builds, wraps and decomposes it (pytrs/parser/trs/trs.py ::        *)
(* TRS.construct_trs, TRS.__init__/.trs setter, TRS.trs_to_dict).          *)
(*                                                                         *)
(* Strings are sequences of one-character strings.  A component is         *)
(*   [k |-> "num", n |-> 0..999, d |-> "n"|"s"|"e"|"w"]   a number+direction*)
(*   [k |-> "err"] / [k |-> "undef"]                      the placeholders *)
(* (sections: [k |-> "num", n |-> 0..99]).                                 *)
(* Part 1: recogniser IsExtStd, Canon (components -> string), Decompose.   *)
(* Part 2: the encodings construct_trs accepts and their meaning.          *)
(* Part 3: single-character edits of a standard string.                    *)
(* Part 4: a small state machine (Build -> Wrap -> Rewrap | Edit -> Wrap)  *)
(*         whose terminal states are emitted as implementation test cases. *)
(***************************************************************************)
EXTENDS Naturals, Integers, Sequences, FiniteSets, TLC, Json

CONSTANTS TwpNums,     \* numbers used for townships and ranges (1000 = too large)
          SecNums,     \* numbers used for sections (100 = too large)
          EditAlphabet,\* characters inserted / substituted by the edit model
          Fault, EmitCases

Digit == {"0", "1", "2", "3", "4", "5", "6", "7", "8", "9"}
DigitChars == <<"0", "1", "2", "3", "4", "5", "6", "7", "8", "9">>
DVal(c) == CHOOSE v \in 0..9 : DigitChars[v + 1] = c
NSl == {"n", "s"}   EWl == {"e", "w"}
Lower(c) == CASE c = "N" -> "n" [] c = "S" -> "s" [] c = "E" -> "e" [] c = "W" -> "w" [] OTHER -> c

ErrTwp == <<"X", "X", "X", "z">>     UndefTwp == <<"_", "_", "_", "z">>
ErrSec == <<"X", "X">>               UndefSec == <<"_", "_">>
ErrTrs == ErrTwp \o ErrTwp \o ErrSec
UndefTrs == UndefTwp \o UndefTwp \o UndefSec

RECURSIVE SeqNum(_, _)
SeqNum(ds, k) == IF k = 0 THEN 0 ELSE SeqNum(ds, k - 1) * 10 + DVal(ds[k])
NumSeq(n) == IF n < 10 THEN <<DigitChars[n + 1]>>
             ELSE IF n < 100 THEN <<DigitChars[(n \div 10) + 1], DigitChars[(n % 10) + 1]>>
             ELSE IF n < 1000 THEN <<DigitChars[(n \div 100) + 1], DigitChars[((n \div 10) % 10) + 1], DigitChars[(n % 10) + 1]>>
             ELSE <<DigitChars[(n \div 1000) + 1], DigitChars[((n \div 100) % 10) + 1], DigitChars[((n \div 10) % 10) + 1], DigitChars[(n % 10) + 1]>>
Pad2(n) == IF n < 10 THEN <<"0">> \o NumSeq(n) ELSE NumSeq(n)
AllDigits(s) == \A i \in 1..Len(s) : s[i] \in Digit

---------------------------------------------------------------------------
(* Part 1 *)
Num(n, d) == [k |-> "num", n |-> n, d |-> d]
SNum(n)   == [k |-> "num", n |-> n]
Err   == [k |-> "err"]
Undef == [k |-> "undef"]

\* does the char sequence t spell a township (dirs = NSl) / range (dirs = EWl)?
IsNumDir(t, dirs) == Len(t) \in 2..4 /\ AllDigits(SubSeq(t, 1, Len(t) - 1)) /\ Lower(t[Len(t)]) \in dirs
IsTR(t, dirs) == IsNumDir(t, dirs) \/ t = ErrTwp \/ t = UndefTwp
IsSec(t) == (Len(t) = 2 /\ AllDigits(t)) \/ t = ErrSec \/ t = UndefSec
\* the (unique) split of s into twp / rge / sec, if any
Splits(s) == {<<i, j>> \in (1..Len(s)) \X (1..Len(s)) :
                 /\ i < j /\ j < Len(s)
                 /\ IsTR(SubSeq(s, 1, i), NSl)
                 /\ IsTR(SubSeq(s, i + 1, j), EWl)
                 /\ IsSec(SubSeq(s, j + 1, Len(s)))}
IsExtStd(s) == Splits(s) # {}
\* twp + rge without any section: accepted by the code with an error section
SplitsNoSec(s) == {i \in 1..Len(s) : i < Len(s) /\ IsTR(SubSeq(s, 1, i), NSl) /\ IsTR(SubSeq(s, i + 1, Len(s)), EWl)}

CompTR(t) == IF t = ErrTwp THEN Err ELSE IF t = UndefTwp THEN Undef
             ELSE Num(SeqNum(SubSeq(t, 1, Len(t) - 1), Len(t) - 1), Lower(t[Len(t)]))
CompSec(t) == IF t = ErrSec THEN Err ELSE IF t = UndefSec THEN Undef ELSE SNum(SeqNum(t, 2))
Decompose(s) == LET sp == CHOOSE p \in Splits(s) : TRUE
                IN [twp |-> CompTR(SubSeq(s, 1, sp[1])),
                    rge |-> CompTR(SubSeq(s, sp[1] + 1, sp[2])),
                    sec |-> CompSec(SubSeq(s, sp[2] + 1, Len(s)))]

CanonTR(c) == IF c.k = "err" THEN ErrTwp ELSE IF c.k = "undef" THEN UndefTwp ELSE NumSeq(c.n) \o <<c.d>>
CanonSec(c) == IF c.k = "err" THEN ErrSec ELSE IF c.k = "undef" THEN UndefSec ELSE Pad2(c.n)
Canon(cs) == CanonTR(cs.twp) \o CanonTR(cs.rge) \o CanonSec(cs.sec)
LowerAll(s) == [i \in 1..Len(s) |-> Lower(s[i])]

\* a string "looks valid" when all three components are numbers
LooksValid(s) == IsExtStd(s) /\ LET d == Decompose(s) IN d.twp.k = "num" /\ d.rge.k = "num" /\ d.sec.k = "num"
HasErrorPart(s) == IsExtStd(s) /\ LET d == Decompose(s) IN d.twp.k = "err" \/ d.rge.k = "err" \/ d.sec.k = "err"

\* what wrapping an arbitrary string in TRS() must give (weaker reading, R3):
\*   a string in the (extended) standard form is kept, direction letters lower-cased;
\*   the empty string is the undefined TRS; anything else carries an error placeholder.
WrapOK(s, out) ==
  IF s = <<>> THEN out = UndefTrs
  ELSE IF IsExtStd(s) THEN out = LowerAll(s)
  ELSE HasErrorPart(out)
\* the design of the code (what it does today): full error TRS, except that a
\* missing section is tolerated
WrapModel(s) ==
  IF s = <<>> THEN UndefTrs
  ELSE IF IsExtStd(s) THEN LowerAll(s)
  ELSE IF SplitsNoSec(s) # {} /\ Fault # "strict_nosec" THEN LowerAll(s) \o ErrSec
  ELSE IF Fault = "unanchored" /\ Len(s) > 1 /\ IsExtStd(Tail(s)) THEN LowerAll(Tail(s))
  ELSE ErrTrs

---------------------------------------------------------------------------
(* Part 2: encodings accepted by construct_trs / from_twprgesec *)
TREncodings ==
   {[e |-> "int", n |-> n] : n \in TwpNums} \cup {[e |-> "digits", n |-> n] : n \in TwpNums}
   \cup {[e |-> "lower", n |-> n, d |-> d] : n \in TwpNums, d \in {1, 2}}
   \cup {[e |-> "upper", n |-> n, d |-> d] : n \in TwpNums, d \in {1, 2}}
   \cup {[e |-> x] : x \in {"none", "empty", "junk", "errph", "undefph"}}
SecEncodings ==
   {[e |-> "int", n |-> n] : n \in SecNums} \cup {[e |-> "digits", n |-> n] : n \in SecNums}
   \cup {[e |-> "pad", n |-> n] : n \in SecNums}
   \cup {[e |-> x] : x \in {"none", "empty", "junk", "errph", "undefph"}}
Defaults == {"unset", "alt"}    \* unset: MasterConfig (n / w); alt: 's' / 'e' passed explicitly
DefNS(x) == IF x = "alt" THEN "s" ELSE "n"
DefEW(x) == IF x = "alt" THEN "e" ELSE "w"

MeaningTR(enc, dirs, dflt) ==
  CASE enc.e \in {"int", "digits"} -> IF enc.n <= 999 THEN Num(enc.n, dflt) ELSE Err
    [] enc.e \in {"lower", "upper"} -> IF enc.n <= 999 THEN Num(enc.n, dirs[enc.d]) ELSE Err
    [] enc.e \in {"none", "empty", "undefph"} -> Undef
    [] enc.e \in {"junk", "errph"} -> Err
MeaningSec(enc) ==
  CASE enc.e \in {"int", "digits", "pad"} -> IF enc.n <= 99 THEN SNum(enc.n) ELSE Err
    [] enc.e \in {"none", "empty", "undefph"} -> Undef
    [] enc.e \in {"junk", "errph"} -> Err
Meaning(b) == [twp |-> MeaningTR(b.twp, <<"n", "s">>, DefNS(b.dns)),
               rge |-> MeaningTR(b.rge, <<"e", "w">>, DefEW(b.dew)),
               sec |-> MeaningSec(b.sec)]
Builds == [twp : TREncodings, rge : TREncodings, sec : SecEncodings, dns : Defaults, dew : Defaults]

---------------------------------------------------------------------------
(* Part 3: edits *)
Insert(s, i, c) == SubSeq(s, 1, i) \o <<c>> \o SubSeq(s, i + 1, Len(s))     \* i in 0..Len(s)
Delete(s, i)    == SubSeq(s, 1, i - 1) \o SubSeq(s, i + 1, Len(s))
Subst(s, i, c)  == [s EXCEPT ![i] = c]
Edits(s) == {[op |-> "ins", i |-> i, c |-> c] : i \in 0..Len(s), c \in EditAlphabet}
            \cup {[op |-> "del", i |-> i, c |-> "-"] : i \in 1..Len(s)}
            \cup {[op |-> "sub", i |-> i, c |-> c] : i \in 1..Len(s), c \in EditAlphabet}
ApplyEdit(s, e) == CASE e.op = "ins" -> Insert(s, e.i, e.c)
                     [] e.op = "del" -> Delete(s, e.i)
                     [] e.op = "sub" -> Subst(s, e.i, e.c)

---------------------------------------------------------------------------
(* Part 4: state machine *)
VARIABLES phase,   \* "start" | "built" | "wrapped" | "edited" | "rewrapped"
          build,   \* the chosen encodings (or a placeholder)
          str,     \* current string (char sequence)
          comps,   \* components the current string should decompose to
          edit,    \* the edit applied, if any
          base     \* the string before the edit
vars == <<phase, build, str, comps, edit, base>>

NoBuild == [twp |-> [e |-> "none"], rge |-> [e |-> "none"], sec |-> [e |-> "none"], dns |-> "unset", dew |-> "unset"]
NoEdit == [op |-> "none", i |-> 0, c |-> "-"]

Init == /\ phase = "start" /\ build \in Builds /\ str = <<>> /\ comps = Meaning(build)
        /\ edit = NoEdit /\ base = <<>>

\* TRS.construct_trs
Build == /\ phase = "start"
         /\ str' = Canon(comps)
         /\ phase' = "built"
         /\ UNCHANGED <<build, comps, edit, base>>
\* TRS(str): decomposition must give back the components
Wrap == /\ phase = "built"
        /\ phase' = "wrapped"
        /\ str' = WrapModel(str)
        /\ UNCHANGED <<build, comps, edit, base>>
\* apply one edit to a wrapped string and wrap the result
EditBase == /\ build.twp.e \in {"lower", "errph", "undefph"} /\ build.rge.e \in {"lower", "errph", "undefph"}
            /\ build.sec.e \in {"pad", "errph", "undefph"} /\ build.dns = "unset" /\ build.dew = "unset"
            /\ (build.twp.e = "lower" => build.twp.d = 1 /\ build.twp.n <= 999)
            /\ (build.rge.e = "lower" => build.rge.d = 2 /\ build.rge.n <= 999)
            /\ (build.sec.e = "pad" => build.sec.n <= 99)
Edit == /\ phase = "wrapped" /\ EditBase
        /\ \E e \in Edits(str) :
             /\ edit' = e /\ base' = str
             /\ str' = ApplyEdit(str, e)
        /\ phase' = "edited"
        /\ UNCHANGED <<build, comps>>
Rewrap == /\ phase = "edited"
          /\ str' = WrapModel(str)
          /\ phase' = "rewrapped"
          /\ UNCHANGED <<build, comps, edit, base>>
Next == Build \/ Wrap \/ Edit \/ Rewrap
Spec == Init /\ [][Next]_vars

BuiltIsCanonical == phase = "built" => IsExtStd(str) /\ Decompose(str) = comps
WrapIdempotent   == phase = "wrapped" => str = Canon(comps) /\ WrapModel(str) = str
EditedNeverValidLooking ==
   phase = "rewrapped" => /\ WrapOK(ApplyEdit(base, edit), str)
                          /\ (LooksValid(str) => str = LowerAll(ApplyEdit(base, edit)))
KeepsOtherComponents ==
   phase = "wrapped" => LET d == Decompose(str) IN d.twp = comps.twp /\ d.rge = comps.rge /\ d.sec = comps.sec

BuildCase == [kind |-> "build", build |-> build, expect |-> Canon(comps)]
EditCase  == [kind |-> "edit", base |-> base, edit |-> edit, input |-> ApplyEdit(base, edit), model |-> str]
EmitBuild == (EmitCases /\ phase = "built") => PrintT(<<"CASE", ToJson(BuildCase)>>)
EmitEdit  == (EmitCases /\ phase = "rewrapped") => PrintT(<<"CASE", ToJson(EditCase)>>)
=============================================================================
