------------------------------- MODULE TrsStd -------------------------------
(***************************************************************************)
(* The pyTRS standard form of a Twp/Rge/Sec ('154n97w14') and the code     *)
(* that builds, wraps and decomposes it (pytrs/parser/trs/trs.py ::        *)
(* TRS.construct_trs, TRS.__init__/.trs setter, TRS.trs_to_dict).          *)
(*                                                                         *)
(* Strings are sequences of one-character strings.  A component is         *)
(*   [k |-> "num", n |-> 0..999, d |-> "n"|"s"|"e"|"w"]   a number+direction*)
(*   [k |-> "err"] / [k |-> "undef"]                      the placeholders *)
(* (sections: [k |-> "num", n |-> 0..99]).                                 *)
(* Part 1: recogniser IsExtStd, Canon (components -> string), Decompose.   *)
(* Part 2: the encodings construct_trs accepts and their meaning.          *)
(* Part 3: single-character edits of a standard string.                    *)
(* Part 4: a small state machine (Build -> Wrap -> Rewrap | Edit -> Wrap)  *)
(*         whose terminal states are emitted as implementation test cases. *)
(***************************************************************************)
EXTENDS TrsForm, TLC, Json

CONSTANTS TwpNums,     \* numbers used for townships and ranges (1000 = too large)
          SecNums,     \* numbers used for sections (100 = too large)
          EditAlphabet,\* characters inserted / substituted by the edit model
          Fault, EmitCases

\* the design of the code (what it does today): full error TRS, except that a
\* missing section is tolerated
WrapModel(s) ==
  IF s = <<>> THEN UndefTrs
  ELSE IF IsExtStd(s) THEN LowerAll(s)
  ELSE IF SplitsNoSec(s) # {} /\ Fault # "strict_nosec" THEN LowerAll(s) \o ErrSec
  ELSE IF Fault = "unanchored" /\ Len(s) > 1 /\ IsExtStd(Tail(s)) THEN LowerAll(Tail(s))
  ELSE ErrTrs

---------------------------------------------------------------------------
(* Part 2: encodings accepted by construct_trs / from_twprgesec *)
TREncodings ==
   {[e |-> "int", n |-> n] : n \in TwpNums} \cup {[e |-> "digits", n |-> n] : n \in TwpNums}
   \cup {[e |-> "lower", n |-> n, d |-> d] : n \in TwpNums, d \in {1, 2}}
   \cup {[e |-> "upper", n |-> n, d |-> d] : n \in TwpNums, d \in {1, 2}}
   \cup {[e |-> x] : x \in {"none", "empty", "junk", "errph", "undefph"}}
SecEncodings ==
   {[e |-> "int", n |-> n] : n \in SecNums} \cup {[e |-> "digits", n |-> n] : n \in SecNums}
   \cup {[e |-> "pad", n |-> n] : n \in SecNums}
   \cup {[e |-> x] : x \in {"none", "empty", "junk", "errph", "undefph"}}
Defaults == {"unset", "alt"}    \* unset: MasterConfig (n / w); alt: 's' / 'e' passed explicitly
DefNS(x) == IF x = "alt" THEN "s" ELSE "n"
DefEW(x) == IF x = "alt" THEN "e" ELSE "w"

MeaningTR(enc, dirs, dflt) ==
  CASE enc.e \in {"int", "digits"} -> IF enc.n <= 999 THEN Num(enc.n, dflt) ELSE Err
    [] enc.e \in {"lower", "upper"} -> IF enc.n <= 999 THEN Num(enc.n, dirs[enc.d]) ELSE Err
    [] enc.e \in {"none", "empty", "undefph"} -> Undef
    [] enc.e \in {"junk", "errph"} -> Err
MeaningSec(enc) ==
  CASE enc.e \in {"int", "digits", "pad"} -> IF enc.n <= 99 THEN SNum(enc.n) ELSE Err
    [] enc.e \in {"none", "empty", "undefph"} -> Undef
    [] enc.e \in {"junk", "errph"} -> Err
Meaning(b) == [twp |-> MeaningTR(b.twp, <<"n", "s">>, DefNS(b.dns)),
               rge |-> MeaningTR(b.rge, <<"e", "w">>, DefEW(b.dew)),
               sec |-> MeaningSec(b.sec)]
\* (ocr: the ocr_scrub option; it may only touch look-alike letters inside the numbers, never a direction letter)
Builds == [twp : TREncodings, rge : TREncodings, sec : SecEncodings, dns : Defaults, dew : Defaults, ocr : BOOLEAN]

---------------------------------------------------------------------------
(* Part 3: edits *)
Insert(s, i, c) == SubSeq(s, 1, i) \o <<c>> \o SubSeq(s, i + 1, Len(s))     \* i in 0..Len(s)
Delete(s, i)    == SubSeq(s, 1, i - 1) \o SubSeq(s, i + 1, Len(s))
Subst(s, i, c)  == [s EXCEPT ![i] = c]
Edits(s) == {[op |-> "ins", i |-> i, c |-> c] : i \in 0..Len(s), c \in EditAlphabet}
            \cup {[op |-> "del", i |-> i, c |-> "-"] : i \in 1..Len(s)}
            \cup {[op |-> "sub", i |-> i, c |-> c] : i \in 1..Len(s), c \in EditAlphabet}
ApplyEdit(s, e) == CASE e.op = "ins" -> Insert(s, e.i, e.c)
                     [] e.op = "del" -> Delete(s, e.i)
                     [] e.op = "sub" -> Subst(s, e.i, e.c)

---------------------------------------------------------------------------
(* Part 4: state machine *)
VARIABLES phase,   \* "start" | "built" | "wrapped" | "edited" | "rewrapped"
          build,   \* the chosen encodings (or a placeholder)
          str,     \* current string (char sequence)
          comps,   \* components the current string should decompose to
          edit,    \* the edit applied, if any
          base     \* the string before the edit
vars == <<phase, build, str, comps, edit, base>>

NoBuild == [twp |-> [e |-> "none"], rge |-> [e |-> "none"], sec |-> [e |-> "none"], dns |-> "unset", dew |-> "unset", ocr |-> FALSE]
NoEdit == [op |-> "none", i |-> 0, c |-> "-"]

Init == /\ phase = "start" /\ build \in Builds /\ str = <<>> /\ comps = Meaning(build)
        /\ edit = NoEdit /\ base = <<>>

\* TRS.construct_trs
Build == /\ phase = "start"
         /\ str' = Canon(comps)
         /\ phase' = "built"
         /\ UNCHANGED <<build, comps, edit, base>>
\* TRS(str): decomposition must give back the components
Wrap == /\ phase = "built"
        /\ phase' = "wrapped"
        /\ str' = WrapModel(str)
        /\ UNCHANGED <<build, comps, edit, base>>
\* apply one edit to a wrapped string and wrap the result
EditBase == /\ build.twp.e \in {"lower", "errph", "undefph"} /\ build.rge.e \in {"lower", "errph", "undefph"}
            /\ build.sec.e \in {"pad", "errph", "undefph"} /\ build.dns = "unset" /\ build.dew = "unset" /\ ~build.ocr
            /\ (build.twp.e = "lower" => build.twp.d = 1 /\ build.twp.n <= 999)
            /\ (build.rge.e = "lower" => build.rge.d = 2 /\ build.rge.n <= 999)
            /\ (build.sec.e = "pad" => build.sec.n <= 99)
Edit == /\ phase = "wrapped" /\ EditBase
        /\ \E e \in Edits(str) :
             /\ edit' = e /\ base' = str
             /\ str' = ApplyEdit(str, e)
        /\ phase' = "edited"
        /\ UNCHANGED <<build, comps>>
Rewrap == /\ phase = "edited"
          /\ str' = WrapModel(str)
          /\ phase' = "rewrapped"
          /\ UNCHANGED <<build, comps, edit, base>>
Next == Build \/ Wrap \/ Edit \/ Rewrap
Spec == Init /\ [][Next]_vars

BuiltIsCanonical == phase = "built" => IsExtStd(str) /\ Decompose(str) = comps
WrapIdempotent   == phase = "wrapped" => str = Canon(comps) /\ WrapModel(str) = str
EditedNeverValidLooking ==
   phase = "rewrapped" => /\ WrapOK(ApplyEdit(base, edit), str)
                          /\ (LooksValid(str) => str = LowerAll(ApplyEdit(base, edit)))
KeepsOtherComponents ==
   phase = "wrapped" => LET d == Decompose(str) IN d.twp = comps.twp /\ d.rge = comps.rge /\ d.sec = comps.sec

BuildCase == [kind |-> "build", build |-> build, expect |-> Canon(comps)]
EditCase  == [kind |-> "edit", base |-> base, edit |-> edit, input |-> ApplyEdit(base, edit), model |-> str]
EmitBuild == (EmitCases /\ phase = "built") => PrintT(<<"CASE", ToJson(BuildCase)>>)
EmitEdit  == (EmitCases /\ phase = "rewrapped") => PrintT(<<"CASE", ToJson(EditCase)>>)
=============================================================================
