-------------------------- MODULE ContainersTrace --------------------------
(***************************************************************************)
(* Trace validation for C18.  Record kinds:                                *)
(*  "filter": {lst: [element], op, sel: [pos], rest: [pos], exc}           *)
(*       positions (1-based, in the list before the call) of the elements  *)
(*       in the returned list and in the list after the call.              *)
(*  "group":  {lst, attrs: ["g1" | "g2"], groups: [{key: [val], members:   *)
(*       [pos]}], unpacked: [pos], exc}  (nested dicts are reported as     *)
(*       their leaves with the key path).                                  *)
(*  "entry":  {target, path, items: [kind], base, exc, len, types_ok,      *)
(*       order_ok}  building / extending a container from mixed elements.  *)
(***************************************************************************)
EXTENDS Containers, IOUtils

VARIABLE l
Trace == JsonDeserialize(IOEnv.TRACE_FILE)
tvars == <<vars, l>>
TraceInit == l = 1 /\ lst = <<>> /\ op = NoOp /\ sel = <<>> /\ rest = <<>> /\ phase = "trace"
Consume == /\ l <= Len(Trace) /\ l' = l + 1
           /\ lst' = <<>> /\ op' = NoOp /\ sel' = <<l>> /\ rest' = <<>> /\ phase' = "observed"
TraceSpec == TraceInit /\ [][Consume]_tvars
Rec == Trace[l - 1]

\* the same object may occur several times in a list; occurrences are indistinguishable from outside, so
\* positions are compared through their representative (the first position holding that instance)
Repr(s, i) == CHOOSE j \in 1..Len(s) : s[j].inst = s[i].inst /\ \A m \in 1..(j - 1) : s[m].inst # s[i].inst
ReprSeq(s, q) == [j \in 1..Len(q) |-> Repr(s, q[j])]
ClauseFilter(r) ==
  LET want == ReprSeq(r.lst, SeqOfSet(SelIdx(r.lst, r.op))) IN
  IF r.exc # "none" THEN "exception_raised"
  ELSE IF r.sel # want THEN
          (IF Len(r.sel) # Len(want) \/ {r.sel[j] : j \in 1..Len(r.sel)} # {want[j] : j \in 1..Len(want)}
           THEN "selected_elements_differ_from_criterion" ELSE "selected_elements_out_of_order")
  ELSE IF r.op.drop /\ r.rest # ReprSeq(r.lst, SeqOfSet((1..Len(r.lst)) \ SelIdx(r.lst, r.op))) THEN "remainder_is_not_the_other_elements_in_order"
  ELSE IF ~r.op.drop /\ r.rest # ReprSeq(r.lst, [i \in 1..Len(r.lst) |-> i]) THEN "list_changed_without_drop"
  ELSE "ok"

\* (the order of the groups in the returned dict is not part of the property: groups are compared as a
\*  set of (key, members); unpack_group must return the members group by group in that dict's order)
ClauseGroup(r) ==
  LET keys == GroupKeys(r.lst, r.attrs)
      keyset == {keys[j] : j \in 1..Len(keys)}
      RECURSIVE Cat(_)
      Cat(j) == IF j > Len(r.groups) THEN <<>> ELSE r.groups[j].members \o Cat(j + 1)
  IN
  IF r.exc # "none" THEN "exception_raised"
  ELSE IF Len(r.groups) # Len(keys) THEN "wrong_number_of_groups"
  ELSE IF {r.groups[j].key : j \in 1..Len(r.groups)} # keyset THEN "group_keys_differ"
  ELSE IF \E j \in 1..Len(r.groups) : r.groups[j].members # ReprSeq(r.lst, Members(r.lst, r.attrs, r.groups[j].key)) THEN "group_members_differ"
  ELSE IF r.unpacked # Cat(1) THEN "unpack_group_differs"
  ELSE "ok"

\* the decision table of the entry paths
OkKinds(target) == IF target = "TractList" THEN {"tract"} ELSE {"tract", "trs", "str"}
Nested == {"list_of_tracts", "tractlist", "plssdesc"}
Acceptable(target, path, k) ==
  k \in OkKinds(target) \/ (path = "from_multiple" /\ k \in Nested) \/ (path = "from_multiple" /\ target = "TRSList" /\ k = "trslist")
CountOf(k) == IF k \in Nested \cup {"trslist"} THEN 2 ELSE 1
RECURSIVE Total(_, _)
Total(items, j) == IF j = 0 THEN 0 ELSE CountOf(items[j]) + Total(items, j - 1)
ClauseEntry(r) ==
  LET allok == \A j \in 1..Len(r.items) : Acceptable(r.target, r.path, r.items[j])
      want == IF r.path = "setitem" THEN r.base ELSE r.base + Total(r.items, Len(r.items))
  IN IF allok THEN (IF r.exc # "none" THEN "acceptable_elements_rejected"
                    ELSE IF r.len # want THEN "element_silently_dropped_or_added"
                    ELSE IF ~r.types_ok THEN "element_not_converted"
                    ELSE IF ~r.order_ok THEN "elements_out_of_order"
                    ELSE "ok")
     ELSE (IF r.exc = "none" THEN "unacceptable_element_not_rejected"
           ELSE IF r.exc # "TypeError" THEN "rejected_with_wrong_exception"
           ELSE "ok")
Clause(r) == CASE r.kind = "filter" -> ClauseFilter(r) [] r.kind = "group" -> ClauseGroup(r) [] r.kind = "entry" -> ClauseEntry(r)
Verdict == phase = "observed" => (Clause(Rec) = "ok" \/ PrintT(<<"FAIL", Rec.id, Clause(Rec)>>))
AllConsumed ==
  /\ PrintT(<<"INFO", "consumed", TLCGet("stats").diameter - 1, Len(Trace)>>)
  /\ TLCGet("stats").diameter - 1 = Len(Trace)
=============================================================================
