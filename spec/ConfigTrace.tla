---------------------------- MODULE ConfigTrace ----------------------------
(***************************************************************************)
(* Trace validation for C13.  Record kinds:                                *)
(*  "codec":    {cfg: [setting |-> value | "unset"], via, obs: same shape, *)
(*               exc}   a Config built from cfg (text / dict / kwargs),    *)
(*               decompiled to text and read back: obs = attributes after. *)
(*  "unknown":  {exc}   an unknown setting name: must raise ValueError.    *)
(*  "scenario": {scn, used, fp_obs, fp_ref, exc_obs, exc_ref, ref_pure} the *)
(*               scenario and its reference (governing value given through *)
(*               the config string at creation) must be observationally    *)
(*               equal (fp = interned projection of the parse result).     *)
(***************************************************************************)
EXTENDS Config, IOUtils

VARIABLE l
Trace == JsonDeserialize(IOEnv.TRACE_FILE)
tvars == <<vars, l>>
TraceInit == l = 1 /\ phase = "trace" /\ scn = NoScn /\ attr = Unset /\ attr2 = Unset /\ used = Unset /\ used2 = Unset /\ cfg = Empty
Consume ==
  /\ l <= Len(Trace)
  /\ l' = l + 1
  /\ LET r == Trace[l] IN
       /\ phase' = r.kind
       /\ scn' = IF r.kind = "scenario" THEN r.scn ELSE NoScn
       /\ used' = IF r.kind = "scenario" THEN r.used ELSE Unset
       /\ cfg' = IF r.kind = "codec" THEN r.cfg ELSE Empty
       /\ attr' = r.id /\ attr2' = Unset /\ used2' = Unset
TraceSpec == TraceInit /\ [][Consume]_tvars

Rec == Trace[l - 1]
\* what the life-cycle model says governs the parse of a recorded scenario
ModelUsed(sc) ==
  LET vin(ch) == IF sc.ch = ch THEN sc.v ELSE IF sc.ch2 = ch /\ sc.s2 = sc.s THEN sc.v2 ELSE Unset
      a0 == IF vin("init_kw") # Unset THEN vin("init_kw") ELSE vin("init_config")
      a1 == IF vin("assign_config") # Unset THEN vin("assign_config") ELSE a0
  IN IF vin("parse_kw") # Unset /\ ~sc.again THEN vin("parse_kw") ELSE IF a1 # Unset THEN a1 ELSE vin("mc")
Clause(r) ==
  CASE r.kind = "codec" ->
         (IF r.exc # "none" THEN "exception_raised"
          ELSE IF \E s \in Settings : r.obs[s] # r.cfg[s] THEN "config_changed_by_text_round_trip"
          ELSE IF Decode(Encode(r.cfg)) # r.cfg THEN "model_codec_broken" ELSE "ok")
    [] r.kind = "unknown" -> (IF r.exc = "ValueError" THEN "ok" ELSE "unknown_setting_not_rejected_with_ValueError")
    [] r.kind = "scenario" ->
         (IF r.exc_obs # "none" \/ r.exc_ref # "none" THEN "exception_raised"
          ELSE IF ModelUsed(r.scn) # r.used THEN "model_precedence_mismatch"
          ELSE IF r.fp_obs # r.fp_ref THEN "effect_differs_from_config_string_at_creation"
          ELSE IF ~r.ref_pure THEN "effect_of_the_setting_depends_on_earlier_calls"
          ELSE "ok")
Verdict == phase \in {"codec", "unknown", "scenario"} => (Clause(Rec) = "ok" \/ PrintT(<<"FAIL", Rec.id, Clause(Rec)>>))
AllConsumed ==
  /\ PrintT(<<"INFO", "consumed", TLCGet("stats").diameter - 1, Len(Trace)>>)
  /\ TLCGet("stats").diameter - 1 = Len(Trace)
=============================================================================
