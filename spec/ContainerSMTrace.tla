-------------------------- MODULE ContainerSMTrace --------------------------
(***************************************************************************)
(* Trace validation for the container state machine (C18).  One record per *)
(* call made on a real TractList / TRSList (or on a list derived from it): *)
(*   {id, op: {name, tgt, i, e, it}, pre: {x, y, z, hasY, hasZ},           *)
(*    post: {x, y, z, hasY, hasZ}, exc, ret}                               *)
(* x / y / z are the lists as sequences of element identities.  The        *)
(* record is accepted when post, exc and ret are what ContainerSM's Apply  *)
(* gives for op in the observed pre-state (three separate lists, nothing   *)
(* shared).                                                                *)
(* Verdicts: what property C18 states - an entry call keeps every element  *)
(* supplied, in order, or raises TypeError; filter(drop) partitions - is a *)
(* FAIL; every other difference from the model (index arithmetic, a        *)
(* refused call that changed something, a call on one list that changed    *)
(* another) is reported as drift.                                          *)
(***************************************************************************)
EXTENDS ContainerSM, IOUtils

VARIABLE l
Trace == JsonDeserialize(IOEnv.TRACE_FILE)
tvars == <<vars, l>>
TraceInit == l = 1 /\ st = St0(<<>>) /\ out = [exc |-> "none", ret |-> NoRet] /\ hist = <<>>
Consume == l <= Len(Trace) /\ l' = l + 1 /\ UNCHANGED vars
TraceSpec == TraceInit /\ [][Consume]_tvars
Rec == Trace[l - 1]

Obs(p) == [x |-> p.x, y |-> p.y, z |-> p.z, hasY |-> p.hasY, hasZ |-> p.hasZ, shareY |-> FALSE, shareZ |-> FALSE]
Want(r) == IF r.op.name = "new"
           THEN (IF AllGood(r.op.it) THEN Ok(St0(r.op.it), NoRet) ELSE Raise(St0(<<>>), "TypeError"))
           ELSE Apply(Obs(r.pre), r.op)
EntryNames == {"new", "append", "extend", "iadd", "add", "insert", "setitem", "extend_self", "iadd_self", "extend_y", "extend_str"}
IsEntry(op) == op.tgt = "x" /\ op.name \in EntryNames
IsFilter(op) == op.tgt = "x" /\ op.name \in {"filter_keep", "filter_drop"}
\* the list an entry call writes to
Written(op, p) == IF op.name = "add" THEN p.y ELSE p.x

Clause(r) ==
  LET w == Want(r)  post == Obs(r.post) IN
  IF r.op.tgt = "x" /\ r.op.name = "radd"
  THEN (IF r.exc = "none" THEN (IF AllGood(r.op.it) /\ post.y = r.op.it \o r.pre.x /\ post.x = r.pre.x THEN "ok"
                                ELSE IF ~AllGood(r.op.it) THEN "unacceptable_element_not_rejected"
                                ELSE "elements_lost_added_or_reordered")
        ELSE IF r.exc = "TypeError" THEN "ok" ELSE "rejected_with_wrong_exception")
  ELSE IF IsEntry(r.op) /\ w.exc = "TypeError" /\ r.exc = "none" THEN "unacceptable_element_not_rejected"
  ELSE IF IsEntry(r.op) /\ w.exc = "TypeError" /\ r.exc # "TypeError" THEN "rejected_with_wrong_exception"
  ELSE IF IsEntry(r.op) /\ w.exc = "none" /\ r.exc = "TypeError" THEN "acceptable_elements_rejected"
  ELSE IF IsEntry(r.op) /\ w.exc = "none" /\ r.exc = "none" /\ Written(r.op, post) # Written(r.op, w.st)
       THEN "elements_lost_added_or_reordered"
  ELSE IF IsFilter(r.op) /\ r.exc # "none" THEN "exception_raised"
  ELSE IF IsFilter(r.op) /\ (post.y # w.st.y \/ post.x # w.st.x) THEN "filter_does_not_partition_in_order"
  ELSE "ok"
\* differences the property does not speak about
DriftClause(r) ==
  LET w == Want(r)  post == Obs(r.post) IN
  IF Clause(r) # "ok" THEN "ok"
  ELSE IF r.op.name = "radd" /\ r.exc = "none" THEN "reflected_addition_exists"
  ELSE IF r.exc # w.exc THEN "other_exception_than_the_model"
  ELSE IF r.exc # "none" /\ post # Obs(r.pre) /\ r.op.name # "new" THEN "refused_call_changed_a_list"
  ELSE IF post.hasY # w.st.hasY \/ post.hasZ # w.st.hasZ THEN "result_object_missing"
  ELSE IF r.op.tgt = "x" /\ post.x # w.st.x THEN "list_differs_from_model"
  ELSE IF r.op.tgt = "y" /\ post.y # w.st.y THEN "list_differs_from_model"
  ELSE IF r.op.tgt = "z" /\ post.z # w.st.z THEN "list_differs_from_model"
  ELSE IF post.x # w.st.x \/ post.y # w.st.y \/ post.z # w.st.z THEN "call_on_one_list_changed_another"
  ELSE IF r.ret # w.ret THEN "returned_value_differs"
  ELSE "ok"
Verdict == l > 1 => (Clause(Rec) = "ok" \/ PrintT(<<"FAIL", Rec.id, Clause(Rec)>>))
Drift == l > 1 => (DriftClause(Rec) = "ok" \/ PrintT(<<"INFO", "drift", Rec.id, DriftClause(Rec)>>))
AllConsumed ==
  /\ PrintT(<<"INFO", "consumed", TLCGet("stats").diameter - 1, Len(Trace)>>)
  /\ TLCGet("stats").diameter - 1 = Len(Trace)
=============================================================================
