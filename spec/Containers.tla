----------------------------- MODULE Containers -----------------------------
(***************************************************************************)
(* TractList / TRSList: filter, filter_errors, filter_duplicates, group_by,*)
(* group_by_nested, unpack_group and the entry paths of a container        *)
(* (pytrs/parser/containers/containers.py) - property C18.                 *)
(*                                                                         *)
(* A list is a sequence of elements                                        *)
(*   [inst, tk, rk, sk, trs, parsed, lq, pp, g1, g2]                       *)
(* inst = object identity, tk/rk/sk = kind of the Twp/Rge/Sec component    *)
(* ("num" | "err" | "undef"), trs = identity of the Twp/Rge/Sec string,    *)
(* parsed, lq = identity of the set of lots/aliquots, pp = identity of the *)
(* preprocessed description, g1/g2 = values of two grouping attributes.    *)
(* Selected(list, crit) is the denotation of each filter; the scan with    *)
(* the `unique` set and the reverse popping of _new_list_from_self are     *)
(* modelled as the implementation-shaped part.                             *)
(***************************************************************************)
EXTENDS Naturals, Integers, Sequences, FiniteSets, TLC, Json

CONSTANTS MaxLen, Shapes, Fault, EmitCases

\* ---- named element shapes (chosen in the cfg) -------------------------------
\*                     inst tk     rk     sk     trs parsed lq pp g1  g2
ShapeOf(n) ==
  CASE n = "a1" -> [inst |-> 1, tk |-> "num", rk |-> "num", sk |-> "num", trs |-> 1, parsed |-> TRUE, lq |-> 1, pp |-> 1, g1 |-> "x", g2 |-> "p"]
    [] n = "a1again" -> [inst |-> 1, tk |-> "num", rk |-> "num", sk |-> "num", trs |-> 1, parsed |-> TRUE, lq |-> 1, pp |-> 1, g1 |-> "x", g2 |-> "p"]
    [] n = "a2" -> [inst |-> 2, tk |-> "num", rk |-> "num", sk |-> "num", trs |-> 1, parsed |-> TRUE, lq |-> 1, pp |-> 2, g1 |-> "x", g2 |-> "p"]
    [] n = "a3" -> [inst |-> 3, tk |-> "num", rk |-> "num", sk |-> "num", trs |-> 1, parsed |-> FALSE, lq |-> 0, pp |-> 1, g1 |-> "x", g2 |-> "p"]
    [] n = "b1" -> [inst |-> 4, tk |-> "num", rk |-> "num", sk |-> "num", trs |-> 2, parsed |-> TRUE, lq |-> 1, pp |-> 1, g1 |-> "x", g2 |-> "q"]
    [] n = "c1" -> [inst |-> 5, tk |-> "num", rk |-> "num", sk |-> "num", trs |-> 3, parsed |-> TRUE, lq |-> 2, pp |-> 3, g1 |-> "y", g2 |-> "p"]
    [] n = "p0a" -> [inst |-> 11, tk |-> "num", rk |-> "num", sk |-> "num", trs |-> 1, parsed |-> TRUE, lq |-> 3, pp |-> 4, g1 |-> "x", g2 |-> "p"]
    [] n = "p0b" -> [inst |-> 12, tk |-> "num", rk |-> "num", sk |-> "num", trs |-> 1, parsed |-> TRUE, lq |-> 3, pp |-> 5, g1 |-> "x", g2 |-> "p"]
    \* (township, range and section number 0: defined numbers, not errors)
    [] n = "z0" -> [inst |-> 13, tk |-> "num", rk |-> "num", sk |-> "num", trs |-> 9, parsed |-> TRUE, lq |-> 1, pp |-> 1, g1 |-> "v", g2 |-> "t"]
    [] n = "eT" -> [inst |-> 6, tk |-> "err", rk |-> "num", sk |-> "num", trs |-> 4, parsed |-> FALSE, lq |-> 0, pp |-> 1, g1 |-> "z", g2 |-> "p"]
    [] n = "eS" -> [inst |-> 7, tk |-> "num", rk |-> "num", sk |-> "err", trs |-> 5, parsed |-> TRUE, lq |-> 1, pp |-> 1, g1 |-> "x", g2 |-> "r"]
    [] n = "uS" -> [inst |-> 8, tk |-> "num", rk |-> "num", sk |-> "undef", trs |-> 6, parsed |-> FALSE, lq |-> 0, pp |-> 1, g1 |-> "x", g2 |-> "s"]
    [] n = "uTeS" -> [inst |-> 9, tk |-> "undef", rk |-> "num", sk |-> "err", trs |-> 7, parsed |-> FALSE, lq |-> 0, pp |-> 1, g1 |-> "w", g2 |-> "r"]
    [] n = "eAll" -> [inst |-> 10, tk |-> "err", rk |-> "err", sk |-> "err", trs |-> 8, parsed |-> FALSE, lq |-> 0, pp |-> 1, g1 |-> "z", g2 |-> "r"]

\* ---- criteria ------------------------------------------------------------------
ErrCrit == [twp : BOOLEAN, rge : BOOLEAN, sec : BOOLEAN, undef : BOOLEAN]
IsErr(e, c) == (c.twp /\ e.tk = "err") \/ (c.rge /\ e.rk = "err") \/ (c.sec /\ e.sk = "err")
IsUndef(e, c) == (c.twp /\ e.tk = "undef") \/ (c.rge /\ e.rk = "undef") \/ (c.sec /\ e.sk = "undef")
ErrSelected(e, c) ==
  IF Fault = "undef_shadows_error"
  THEN (IF IsUndef(e, c) THEN c.undef ELSE IsErr(e, c))
  ELSE IsErr(e, c) \/ (c.undef /\ IsUndef(e, c))

DupMethods == {"instance", "lots_qqs", "desc", "trs"}
\* the key under which an element counts as a repeat for a method (0: does not take part)
DupKey(e, m) ==
  CASE m = "instance" -> <<"none", 0, 0>>
    [] m = "trs" -> <<"trs", e.trs, 0>>
    [] m = "desc" -> <<"desc", e.trs, e.pp>>
    [] m = "lots_qqs" -> IF e.parsed THEN <<"lq", e.trs, e.lq>> ELSE <<"none", 0, 0>>
\* denotation: position i is a duplicate iff an earlier position holds the same instance,
\* or (for the other methods) an equal key
IsDup(s, i, m) ==
  \E j \in 1..(i - 1) : s[j].inst = s[i].inst
                        \/ (DupKey(s[i], m)[1] # "none" /\ DupKey(s[j], m) = DupKey(s[i], m))
\* implementation-shaped: the scan with the `unique` set
RECURSIVE DupScan(_, _, _, _, _)
DupScan(s, i, m, uniqI, uniqK) ==
  IF i > Len(s) THEN {}
  ELSE LET e == s[i]  k == DupKey(e, m)
           byinst == e.inst \in uniqI
           bykey == k[1] # "none" /\ k \in uniqK
       IN (IF byinst \/ bykey THEN {i} ELSE {})
          \cup DupScan(s, i + 1, m, uniqI \cup {e.inst}, IF k[1] # "none" THEN uniqK \cup {k} ELSE uniqK)

Preds == {"g1_is_x", "parsed", "all", "none"}
PredHolds(e, p) == CASE p = "g1_is_x" -> e.g1 = "x" [] p = "parsed" -> e.parsed [] p = "all" -> TRUE [] p = "none" -> FALSE

\* ---- selection, dropping ----------------------------------------------------------
SelIdx(s, op) ==
  CASE op.name = "filter" -> {i \in 1..Len(s) : PredHolds(s[i], op.pred)}
    [] op.name = "filter_errors" -> {i \in 1..Len(s) : ErrSelected(s[i], op.crit)}
    [] op.name = "filter_duplicates" -> DupScan(s, 1, op.method, {}, {})
SeqOfSet(S) == LET RECURSIVE F(_, _)
                   F(T, acc) == IF T = {} THEN acc
                                ELSE LET x == CHOOSE y \in T : \A z \in T : y <= z IN F(T \ {x}, Append(acc, x))
               IN F(S, <<>>)
\* _new_list_from_self: indexes are popped from the highest to the lowest
RECURSIVE PopAll(_, _)
PopAll(positions, idxs) ==        \* positions: current list (of original positions); idxs: set of list indexes still to pop
  IF idxs = {} THEN positions
  ELSE LET i == IF Fault = "pop_forward" THEN CHOOSE y \in idxs : \A z \in idxs : y <= z
                 ELSE CHOOSE y \in idxs : \A z \in idxs : y >= z
       IN PopAll(IF i <= Len(positions) THEN SubSeq(positions, 1, i - 1) \o SubSeq(positions, i + 1, Len(positions)) ELSE positions,
                 idxs \ {i})
Remainder(s, op) == IF op.drop THEN PopAll([i \in 1..Len(s) |-> i], SelIdx(s, op)) ELSE [i \in 1..Len(s) |-> i]

\* ---- grouping ------------------------------------------------------------------------
AttrVal(e, a) == IF a = "g1" THEN e.g1 ELSE e.g2
KeyOf(e, attrs) == [j \in 1..Len(attrs) |-> AttrVal(e, attrs[j])]
\* groups in first-occurrence order, members in list order
GroupKeys(s, attrs) ==
  LET RECURSIVE F(_, _)
      F(i, acc) == IF i > Len(s) THEN acc
                   ELSE IF \E j \in 1..Len(acc) : acc[j] = KeyOf(s[i], attrs) THEN F(i + 1, acc)
                   ELSE F(i + 1, Append(acc, KeyOf(s[i], attrs)))
  IN F(1, <<>>)
Members(s, attrs, key) == SeqOfSet({i \in 1..Len(s) : KeyOf(s[i], attrs) = key})

---------------------------------------------------------------------------
VARIABLES lst, op, sel, rest, phase
vars == <<lst, op, sel, rest, phase>>
NoOp == [name |-> "none", pred |-> "all", crit |-> [twp |-> TRUE, rge |-> TRUE, sec |-> TRUE, undef |-> FALSE],
         method |-> "instance", drop |-> FALSE]
FilterOps == {[NoOp EXCEPT !.name = "filter", !.pred = p, !.drop = d] : p \in Preds, d \in BOOLEAN}
             \cup {[NoOp EXCEPT !.name = "filter_errors", !.crit = c, !.drop = d] : c \in ErrCrit, d \in BOOLEAN}
             \cup {[NoOp EXCEPT !.name = "filter_duplicates", !.method = m, !.drop = d] : m \in DupMethods, d \in BOOLEAN}
Init == lst = <<>> /\ op = NoOp /\ sel = <<>> /\ rest = <<>> /\ phase = "choose"
Choose == /\ phase = "choose"
          /\ \E n \in 1..MaxLen : \E names \in [1..n -> Shapes] : lst' = [i \in 1..n |-> ShapeOf(names[i])]
          /\ \E o \in FilterOps : op' = o
          /\ phase' = "chosen" /\ UNCHANGED <<sel, rest>>
Apply == /\ phase = "chosen"
         /\ sel' = SeqOfSet(SelIdx(lst, op))
         /\ rest' = Remainder(lst, op)
         /\ phase' = "done" /\ UNCHANGED <<lst, op>>
Next == Choose \/ Apply
Spec == Init /\ [][Next]_vars

Sorted(q) == \A a, b \in 1..Len(q) : a < b => q[a] < q[b]
InOrder == phase = "done" => Sorted(sel) /\ Sorted(rest)
Partition == phase = "done" /\ op.drop =>
               /\ {sel[j] : j \in 1..Len(sel)} \cap {rest[j] : j \in 1..Len(rest)} = {}
               /\ {sel[j] : j \in 1..Len(sel)} \cup {rest[j] : j \in 1..Len(rest)} = 1..Len(lst)
NoDropKeepsAll == phase = "done" /\ ~op.drop => rest = [i \in 1..Len(lst) |-> i]
ScanEqualsDenotation == phase = "done" /\ op.name = "filter_duplicates" =>
               {sel[j] : j \in 1..Len(sel)} = {i \in 1..Len(lst) : IsDup(lst, i, op.method)}
ErrorsCriterion == phase = "done" /\ op.name = "filter_errors" =>
               {sel[j] : j \in 1..Len(sel)} = {i \in 1..Len(lst) : IsErr(lst[i], op.crit) \/ (op.crit.undef /\ IsUndef(lst[i], op.crit))}

EmitCase == (EmitCases /\ phase = "done") => PrintT(<<"CASE", ToJson([lst |-> lst, op |-> op, sel |-> sel, rest |-> rest])>>)
=============================================================================
