--------------------------- MODULE AliquotTrace ---------------------------
(***************************************************************************)
(* Trace validation for C02.  Each record of the trace file is one         *)
(* observation of the real pyTRS:                                          *)
(*   {"id", "chain": [...], "dmin", "dmax", "bh", "pieces": [[tok,...]]}   *)
(* One step consumes one record, loads it into the variables of Aliquot    *)
(* (out = what the implementation returned) and the invariants below give  *)
(* the verdicts: FAIL = property C02 is false for the observation,         *)
(* DRIFT = the observation differs from the model's own output.            *)
(***************************************************************************)
EXTENDS Aliquot, IOUtils

VARIABLE l
Trace == JsonDeserialize(IOEnv.TRACE_FILE)

tvars == <<vars, l>>

TraceInit ==
  /\ l = 1
  /\ chain = <<>> /\ dmin = 0 /\ dmax = 0 /\ bh = FALSE
  /\ pc = "trace" /\ cl = <<>> /\ prev = <<>> /\ passes = 0
  /\ nested = <<>> /\ out = <<>>

Consume ==
  /\ l <= Len(Trace)
  /\ l' = l + 1
  /\ LET r == Trace[l] IN
       /\ chain' = r.chain /\ dmin' = r.dmin /\ dmax' = r.dmax /\ bh' = r.bh
       /\ out' = r.pieces
       /\ cl' = <<>> /\ prev' = <<>> /\ nested' = <<>>
       /\ passes' = l          \* keeps every consumed record a distinct state
       /\ pc' = "done"

TraceSpec == TraceInit /\ [][Consume]_tvars

Id == Trace[l - 1].id
Verdict ==
  pc = "done" =>
    LET c == IF Trace[l - 1].exc # "none" THEN "exception_raised"
             ELSE C02Clause(chain, dmin, dmax, bh, out)
    IN c = "ok" \/ PrintT(<<"FAIL", Id, c>>)
Drift ==
  pc = "done" =>
    \/ out = ModelRun(chain, dmin, dmax, bh)
    \/ PrintT(<<"INFO", "drift", Id>>)

AllConsumed ==
  /\ PrintT(<<"INFO", "consumed", TLCGet("stats").diameter - 1, Len(Trace)>>)
  /\ TLCGet("stats").diameter - 1 = Len(Trace)
=============================================================================
