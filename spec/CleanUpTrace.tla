--------------------------- MODULE CleanUpTrace ---------------------------
(***************************************************************************)
(* Conformance of the real description clean-up with CleanUp.tla.          *)
(* One record per rendered block: {"id", "input": [atom], "obs": [atom],   *)
(* "exc"} where obs is the `desc` of the tract that PLSSDesc builds from   *)
(* 'T154N-R97W Sec 14:' followed by the block, read back as atoms.         *)
(* The comparison is drift: no listed property speaks about blocks that    *)
(* end in culled words (C01 excludes them).                                *)
(***************************************************************************)
EXTENDS CleanUp, IOUtils

VARIABLE l
Trace == JsonDeserialize(IOEnv.TRACE_FILE)
tvars == <<vars, l>>
TraceInit == l = 1 /\ input = <<>> /\ text = <<>> /\ phase = "trace"
Consume == /\ l <= Len(Trace) /\ l' = l + 1
           /\ input' = Trace[l].input /\ text' = Trace[l].obs /\ phase' = "observed"
TraceSpec == TraceInit /\ [][Consume]_tvars
Rec == Trace[l - 1]
Drift == phase = "observed" =>
           ((Rec.exc = "none" /\ text = Clean(input)) \/ PrintT(<<"INFO", "drift", Rec.id>>))
AllConsumed ==
  /\ PrintT(<<"INFO", "consumed", TLCGet("stats").diameter - 1, Len(Trace)>>)
  /\ TLCGet("stats").diameter - 1 = Len(Trace)
=============================================================================
