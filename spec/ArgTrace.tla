------------------------------ MODULE ArgTrace ------------------------------
(***************************************************************************)
(* C03, second half: invalid arguments are rejected, and only with the     *)
(* documented exception types.  Record: {"id", "kind", "exc", "bases"}     *)
(* where bases lists the class names of the raised exception's MRO.        *)
(***************************************************************************)
EXTENDS Naturals, Sequences, IOUtils, TLC, Json

VARIABLE l
Trace == JsonDeserialize(IOEnv.TRACE_FILE)
TraceInit == l = 1
Consume == l <= Len(Trace) /\ l' = l + 1
TraceSpec == TraceInit /\ [][Consume]_l

\* the decision table: argument situation -> class that must be raised ("none": must be accepted)
ExpectedExc(kind) ==
  CASE kind \in {"text_int", "text_none", "text_bytes", "text_list"} -> "TypeError"
    [] kind \in {"config_int", "config_list", "tract_config_int"} -> "TypeError"      \* ConfigError is a TypeError
    [] kind \in {"config_unknown_name", "config_unknown_kv", "tract_config_unknown"} -> "ValueError"
    [] kind \in {"default_ns_bad", "parse_default_ns_bad"} -> "DefaultNSError"
    [] kind = "default_ew_bad" -> "DefaultEWError"
    [] kind = "tract_trs_int" -> "TypeError"
    [] kind \in {"config_object_ok", "config_none_ok"} -> "none"
Rec == Trace[l - 1]
Raised(r, cls) == r.exc = cls \/ \E j \in 1..Len(r.bases) : r.bases[j] = cls
Clause(r) ==
  LET want == ExpectedExc(r.kind) IN
  IF want = "none" THEN (IF r.exc = "none" THEN "ok" ELSE "valid_argument_rejected")
  ELSE IF r.exc = "none" THEN "invalid_argument_accepted"
  ELSE IF ~Raised(r, want) THEN "wrong_exception_type"
  ELSE "ok"
Verdict == l > 1 => (Clause(Rec) = "ok" \/ PrintT(<<"FAIL", Rec.id, Clause(Rec)>>))
AllConsumed ==
  /\ PrintT(<<"INFO", "consumed", TLCGet("stats").diameter - 1, Len(Trace)>>)
  /\ TLCGet("stats").diameter - 1 = Len(Trace)
=============================================================================
