------------------------- MODULE GlobalStateTrace -------------------------
(***************************************************************************)
(* Trace validation for C15.  Events of many histories (each starts with   *)
(* a "begin" event: fresh global state):                                   *)
(*   {"tid", "seq", "op": {name, a, b}, "fp": int, "exc"}                  *)
(* fp (probes only) = hash of the complete projected outcome of the probe. *)
(* The events drive GlobalState's actions; a probe's fp must be the same   *)
(* for the same Pure(probe, MasterConfig) - across all histories, the      *)
(* reference histories recorded in fresh interpreters included.            *)
(***************************************************************************)
EXTENDS GlobalState, IOUtils

VARIABLES l, seen
Trace == JsonDeserialize(IOEnv.TRACE_FILE)
tvars == <<vars, l, seen>>
TraceInit == l = 1 /\ seen = [x \in {} |-> 0] /\ mc = Default /\ usecache = TRUE /\ cache = [k \in {} |-> "ok"]
             /\ result = Pure("trs_attrs", Default) /\ hist = <<>> /\ held = NoHeld /\ cfgobj = NoHeld /\ asked = FALSE /\ dry = FALSE

Consume ==
  /\ l <= Len(Trace) /\ l' = l + 1 /\ hist' = <<>> /\ cache' = cache /\ held' = held /\ cfgobj' = cfgobj /\ asked' = asked /\ dry' = dry
  /\ LET ev == Trace[l]  o == ev.op IN
       /\ mc' = CASE o.name = "begin" -> Default
                  [] o.name = "set_mc" -> [ns |-> o.a, ew |-> o.b]
                  [] o.name = "restore_mc" -> Default
                  [] OTHER -> mc
       /\ usecache' = CASE o.name = "begin" -> TRUE [] o.name = "use_cache" -> (o.a = "on") [] OTHER -> usecache
       /\ IF o.name = "probe"
          THEN LET key == Pure(o.a, mc)
                   clause == IF ev.exc # "none" THEN "exception_raised"
                             ELSE IF key \in DOMAIN seen /\ seen[key] # ev.fp THEN "outcome_depends_on_history"
                             ELSE "ok"
               IN /\ result' = key
                  /\ (IF clause = "ok" THEN TRUE ELSE PrintT(<<"FAIL", ev.tid, clause, ev.seq>>))
                  /\ seen' = IF key \in DOMAIN seen \/ clause # "ok" THEN seen ELSE seen @@ (key :> ev.fp)
          ELSE /\ result' = result /\ seen' = seen
               /\ (IF o.name = "bad_config"
                   THEN (IF ev.exc = "ValueError" THEN TRUE ELSE PrintT(<<"FAIL", ev.tid, "rejection_of_a_bad_config_depends_on_history", ev.seq>>))
                   ELSE IF ev.exc = "none" THEN TRUE ELSE PrintT(<<"FAIL", ev.tid, "exception_raised", ev.seq>>))
TraceSpec == TraceInit /\ [][Consume]_tvars
AllConsumed ==
  /\ PrintT(<<"INFO", "consumed", TLCGet("stats").diameter - 1, Len(Trace)>>)
  /\ TLCGet("stats").diameter - 1 = Len(Trace)
=============================================================================
