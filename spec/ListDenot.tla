----------------------------- MODULE ListDenot -----------------------------
(***************************************************************************)
(* Denotation of an elided list of numbers  n1 c1 n2 ... nk  with          *)
(* connectives "AND" / "THRU" (no variables; shared by ElidedList (C05),   *)
(* PlssDesc (C01, C20) and TractParse (C06)).                              *)
(***************************************************************************)
EXTENDS Naturals, Integers, Sequences, FiniteSets

Conn == {"AND", "THRU"}

Rev(s) == [j \in 1..Len(s) |-> s[Len(s) + 1 - j]]
Last(s) == s[Len(s)]

\* numbers strictly after a up to and including b, in the stated direction
RangeTail(a, b) ==
  IF a < b THEN [j \in 1..(b - a) |-> a + j]
  ELSE IF a > b THEN [j \in 1..(a - b) |-> a - j]
  ELSE <<>>

RECURSIVE ExpandFrom(_, _, _, _)
ExpandFrom(nums, conns, j, acc) ==
  IF j > Len(nums) THEN acc
  ELSE IF j > 1 /\ conns[j - 1] = "THRU"
       THEN ExpandFrom(nums, conns, j + 1, acc \o RangeTail(nums[j - 1], nums[j]))
       ELSE ExpandFrom(nums, conns, j + 1, Append(acc, nums[j]))
\* The denotation: every range expanded inclusively in its stated direction,
\* concatenated in reading order, duplicates kept.
Expand(nums, conns) == ExpandFrom(nums, conns, 1, <<>>)

Descending(nums, conns) == \E j \in 1..(Len(nums) - 1) : conns[j] = "THRU" /\ nums[j] > nums[j + 1]
NonAscending(nums, conns) == \E j \in 1..(Len(nums) - 1) : conns[j] = "THRU" /\ nums[j] >= nums[j + 1]
Chained(conns) == \E j \in 1..(Len(conns) - 1) : conns[j] = "THRU" /\ conns[j + 1] = "THRU"
Shift(s, d) == [j \in 1..Len(s) |-> s[j] + d]

\* number of expanded items a leading aliquot applies to: everything left of
\* the leftmost number that has its own keyword after a non-THRU connective
RECURSIVE CountBefore(_, _, _)
CountBefore(nums, conns, j) == Len(Expand(SubSeq(nums, 1, j - 1), SubSeq(conns, 1, j - 2)))
AliquotsThrough(nums, conns, kw) ==
  LET S == {j \in 2..Len(nums) : kw[j] /\ conns[j - 1] # "THRU"}
  IN IF S = {} THEN Len(Expand(nums, conns))
     ELSE CountBefore(nums, conns, CHOOSE j \in S : \A m \in S : j <= m)

=============================================================================
