------------------------------ MODULE CleanUp ------------------------------
(***************************************************************************)
(* cleanup_desc() (pytrs/parser/plssdesc/plss_parse.py): what happens to   *)
(* the ends of a description block before it becomes a tract's `desc`.     *)
(* C01 / C04 speak of blocks "verbatim"; this module says exactly which    *)
(* material at the two ends is not part of the block.                      *)
(*                                                                         *)
(* A text is a sequence of atoms: "W" (any other word), the words the code *)
(* culls ("the", "of", "in", "and", "all"), one-character punctuation      *)
(* ("." "," ";" ":" "-"), "SP" (a blank) and "NL" (a line break).          *)
(* The code loops until nothing changes:                                   *)
(*    text = text.lstrip('.')                                              *)
(*    text = text.strip(',;:-\t\n ')                                       *)
(*    for each of ' the', ' all in', ' all of', ' of', ' in', ' and':      *)
(*        if text.lower().endswith(it): cut it off                         *)
(* One round is the action Round; Cut is the for-loop, on the text as it   *)
(* is after each cut.  Fault "stale_lower" compares against the text as it *)
(* was at the beginning of the round (seeded change C04_d).                *)
(***************************************************************************)
EXTENDS Naturals, Integers, Sequences, FiniteSets, TLC, Json

CONSTANTS MaxLen, Fault, EmitCases

Culled == {"the", "of", "in", "and", "all"}
Punct == {".", ",", ";", ":", "-"}
White == {"SP", "NL"}
Atoms == {"W"} \cup Culled \cup Punct \cup White
Strippable == (Punct \ {"."}) \cup White          \* the characters of strip(',;:-\t\n ')

RECURSIVE LStrip(_, _)
LStrip(s, S) == IF s # <<>> /\ Head(s) \in S THEN LStrip(Tail(s), S) ELSE s
RECURSIVE RStrip(_, _)
RStrip(s, S) == IF s # <<>> /\ s[Len(s)] \in S THEN RStrip(SubSeq(s, 1, Len(s) - 1), S) ELSE s
Strip(s) == RStrip(LStrip(LStrip(s, {"."}), Strippable), Strippable)

\* the cull list, in the code's order, each entry as the atoms it ends with (a blank, then the words)
CullList == << <<"SP", "the">>, <<"SP", "all", "SP", "in">>, <<"SP", "all", "SP", "of">>, <<"SP", "of">>, <<"SP", "in">>, <<"SP", "and">> >>
EndsWith(s, e) == Len(s) >= Len(e) /\ SubSeq(s, Len(s) - Len(e) + 1, Len(s)) = e
RECURSIVE Cut(_, _, _)
Cut(s, j, seen) ==       \* seen: the text the comparison looks at (= s unless the fault is injected)
  IF j > Len(CullList) THEN s
  ELSE LET e == CullList[j]
           look == IF Fault = "stale_lower" THEN seen ELSE s
       IN IF EndsWith(look, e)
          THEN Cut(SubSeq(s, 1, IF Len(s) >= Len(e) THEN Len(s) - Len(e) ELSE 0), j + 1, seen)
          ELSE Cut(s, j + 1, seen)
OneRound(s) == LET t == Strip(s) IN Cut(t, 1, t)
RECURSIVE Clean(_)
Clean(s) == IF OneRound(s) = s THEN s ELSE Clean(OneRound(s))

---------------------------------------------------------------------------
VARIABLES input, text, phase
vars == <<input, text, phase>>
Init == input = <<>> /\ text = <<>> /\ phase = "choose"
Choose == /\ phase = "choose"
          /\ \E n \in 0..MaxLen : \E s \in [1..n -> Atoms] :
               \* (words are separated from each other by something that is not a word)
               /\ \A i \in 1..(n - 1) : ~(s[i] \in {"W"} \cup Culled /\ s[i + 1] \in {"W"} \cup Culled)
               \* (the parser sees preprocessed text: runs of blanks are one blank, at most two line breaks in a row)
               /\ \A i \in 1..(n - 1) : ~(s[i] = "SP" /\ s[i + 1] = "SP")
               /\ \A i \in 1..(n - 2) : ~(s[i] = "NL" /\ s[i + 1] = "NL" /\ s[i + 2] = "NL")
               /\ input' = s /\ text' = s
          /\ phase' = "loop"
Round == /\ phase = "loop" /\ OneRound(text) # text
         /\ text' = OneRound(text) /\ UNCHANGED <<input, phase>>
Stop == /\ phase = "loop" /\ OneRound(text) = text
        /\ phase' = "done" /\ UNCHANGED <<input, text>>
Next == Choose \/ Round \/ Stop
Spec == Init /\ [][Next]_vars

Done == phase = "done"
\* the loop computes the function
LoopIsFunction == Done => text = Clean(input)
\* cleaning again changes nothing
FixedPoint == Done => OneRound(text) = text /\ Clean(text) = text
\* nothing is left at the ends that a round would remove
EndsClean == Done /\ text # <<>> =>
               /\ Head(text) \notin Strippable \cup {"."}
               /\ text[Len(text)] \notin Strippable
               /\ \A j \in 1..Len(CullList) : ~EndsWith(text, CullList[j])
\* only the ends are touched: the result is one contiguous piece of the input ...
IsPiece(t, s) == \E a \in 0..Len(s) : a + Len(t) <= Len(s) /\ SubSeq(s, a + 1, a + Len(t)) = t
OnlyEndsTouched == Done => IsPiece(text, input)
\* ... that still holds every ordinary word of it
Words(s) == Cardinality({i \in 1..Len(s) : s[i] = "W"})
KeepsWords == Done => Words(text) = Words(input)
\* the loop ends (each round shortens the text)
Shrinks == [][phase = "loop" /\ phase' = "loop" => Len(text') < Len(text)]_vars

EmitCase == (EmitCases /\ Done) => PrintT(<<"CASE", ToJson([input |-> input, clean |-> text])>>)
=============================================================================
