----------------------------- MODULE AliquotLex -----------------------------
(***************************************************************************)
(* Spellings of aliquot components and their normal form                   *)
(* (pytrs/parser/tract/tract_preprocess.py, rgxlib/aliquots.py) - C07.     *)
(*                                                                         *)
(* A written chain is a sequence of components [kind, class] (kind "H" =   *)
(* half, "Q" = quarter; class = how it is spelled) with a joiner between   *)
(* neighbours.  Spelling classes:                                          *)
(*   SYM N½  SLASH N/2  BARE N2  FRAC N 1/2  WORD North Half               *)
(*   WORDFRAC North 1/2  WORDONE North One Half   (same for quarters)      *)
(*   BAREQ NE  (two letters, no fraction; quarters only)                   *)
(* Joiners: NONE, SPACE, OF (" of "), OFTHE (" of the ").                  *)
(* Recognised(w, clean, i): is component i read as an aliquot?  Everything *)
(* with a fraction always; a bare quarter only under clean_qq or when it   *)
(* follows a half (possibly through other bare quarters).  The normal form *)
(* of a chain all of whose components are recognised is the sequence of    *)
(* its symbols, and normalising is a fixed point.                          *)
(***************************************************************************)
EXTENDS Naturals, Integers, Sequences, FiniteSets, TLC, Json

CONSTANTS MaxLen, Fault, EmitCases

HalfClasses == {"SYM", "SLASH", "BARE", "FRAC", "WORD", "WORDFRAC", "WORDONE"}
QuarterClasses == HalfClasses \cup {"BAREQ"}
Joiners == {"NONE", "SPACE", "OF", "OFTHE"}
Comp(k, c) == [kind |-> k, class |-> c]
Comps == {Comp("H", c) : c \in HalfClasses} \cup {Comp("Q", c) : c \in QuarterClasses}
EndsInLetter(c) == c \in {"WORD", "WORDONE", "BAREQ"}
\* an empty joiner must not glue a word to the next component's letters
\* (a bare quarter may be followed directly by another bare quarter or by a clean symbol: 'E½NENW', 'N½NEW½')
GlueOK(a, j, b) == j # "NONE" \/ ~EndsInLetter(a.class) \/ (a.class = "BAREQ" /\ b.class \in {"BAREQ", "SYM"})

RECURSIVE AfterHalf(_, _)
\* component i is a bare quarter reached from a half through bare quarters only
AfterHalf(w, i) == i > 1 /\ (w[i - 1].kind = "H" \/ (w[i - 1].class = "BAREQ" /\ AfterHalf(w, i - 1)))
Recognised(w, clean, i) ==
  IF Fault = "bare_always" THEN TRUE
  ELSE w[i].class # "BAREQ" \/ clean \/ AfterHalf(w, i)
AllRecognised(w, clean) == \A i \in 1..Len(w) : Recognised(w, clean, i)
\* documented writings: glue rule respected
Documented(w, js) == \A i \in 1..(Len(w) - 1) : GlueOK(w[i], js[i], w[i + 1])

\* --- the scrubbing pipeline of scrub_aliquots(), pass by pass ------------------------------------------
\* st[i]: has component i been rewritten to its symbol yet?  jn[i]: the joiner still standing after component i
VARIABLES w, js, clean, phase, st, jn, round
vars == <<w, js, clean, phase, st, jn, round>>
Init == w = <<>> /\ js = <<>> /\ clean \in BOOLEAN /\ phase = "choose" /\ st = <<>> /\ jn = <<>> /\ round = 0
Choose == /\ phase = "choose"
          /\ \E n \in 1..MaxLen : \E cs \in [1..n -> Comps] : \E j \in [1..(n - 1) -> Joiners] :
               /\ Documented(cs, j) /\ w' = cs /\ js' = j
               /\ st' = [i \in 1..n |-> cs[i].class = "SYM"] /\ jn' = j
          /\ phase' = "scrub" /\ UNCHANGED <<clean, round>>
\* the eight fraction-bearing scrubbers: every spelling with a fraction becomes its symbol
Scrub == /\ phase = "scrub"
         /\ st' = [i \in 1..Len(w) |-> st[i] \/ w[i].class # "BAREQ"]
         /\ phase' = IF Fault = "clean_last" THEN "halfq" ELSE "cleanqq"
         /\ UNCHANGED <<w, js, clean, jn, round>>
\* the clean_qq scrubbers: every bare quarter (only when clean_qq is on)
CleanQQ == /\ phase = "cleanqq"
           /\ st' = [i \in 1..Len(w) |-> st[i] \/ clean]
           /\ phase' = IF Fault = "clean_last" THEN "done" ELSE "halfq"
           /\ UNCHANGED <<w, js, clean, jn, round>>
\* half_plus_q: a bare quarter directly after a symbol half (through bare quarters) - only where the half stands
\* at a word boundary or after another half
RECURSIVE Lic(_, _)
Lic(wd, i) == IF wd[i - 1].kind = "H" THEN i - 1 ELSE Lic(wd, i - 1)
HalfClear(h) == h = 1 \/ js[h - 1] # "NONE" \/ w[h - 1].kind = "H"
HalfPlusQ == /\ phase = "halfq"
             /\ st' = [i \in 1..Len(w) |-> st[i] \/ (w[i].class = "BAREQ" /\ AfterHalf(w, i) /\ HalfClear(Lic(w, i)))]
             /\ phase' = "interveners"
             /\ UNCHANGED <<w, js, clean, jn, round>>
\* remove_aliquot_interveners: blanks / of / of the between two symbols disappear
RemoveInterveners ==
  /\ phase = "interveners"
  /\ jn' = [i \in 1..Len(jn) |-> IF st[i] /\ st[i + 1] THEN "NONE" ELSE jn[i]]
  /\ phase' = IF Fault = "clean_last" THEN "cleanqq" ELSE "done"
  /\ UNCHANGED <<w, js, clean, st, round>>
\* normalising the normalised text once more (the symbols are SYM spellings now)
Again == /\ phase = "done" /\ round = 0
         /\ round' = 1 /\ phase' = "scrub"
         /\ UNCHANGED <<w, js, clean, st, jn>>
Next == Choose \/ Scrub \/ CleanQQ \/ HalfPlusQ \/ RemoveInterveners \/ Again
Spec == Init /\ [][Next]_vars

Chosen == phase # "choose"
FractionsAlwaysRecognised == Chosen => \A i \in 1..Len(w) : w[i].class # "BAREQ" => Recognised(w, clean, i)
BareOnlyWithContext == Chosen /\ ~clean => \A i \in 1..Len(w) : (w[i].class = "BAREQ" /\ Recognised(w, clean, i)) => AfterHalf(w, i)
CleanRecognisesAll == Chosen /\ clean => AllRecognised(w, clean)
\* the pipeline reaches the canonical text exactly for the chains all of whose components must be aliquots
MustAll == \A i \in 1..Len(w) : w[i].class # "BAREQ" \/ clean \/ (AfterHalf(w, i) /\ HalfClear(Lic(w, i)))
PipelineCanonical == phase = "done" /\ MustAll => (\A i \in 1..Len(w) : st[i]) /\ (\A i \in 1..Len(jn) : jn[i] = "NONE")
\* a symbol is only ever produced where the statement allows it
PipelineSound == phase = "done" => \A i \in 1..Len(w) : st[i] => Recognised(w, clean, i)
\* fixed point: the second round changes nothing (checked as an action property)
FixedPoint == [][round = 1 => (st' = st /\ jn' = jn)]_vars

EmitCase == (EmitCases /\ phase = "done" /\ round = 0) =>
  PrintT(<<"CASE", ToJson([w |-> w, js |-> js, clean |-> clean,
                           recognised |-> [i \in 1..Len(w) |-> Recognised(w, clean, i)]])>>)
=============================================================================
