----------------------------- MODULE AliquotLex -----------------------------
(***************************************************************************)
(* Spellings of aliquot components and their normal form                   *)
(* (pytrs/parser/tract/tract_preprocess.py, rgxlib/aliquots.py) - C07.     *)
(*                                                                         *)
(* A written chain is a sequence of components [kind, class] (kind "H" =   *)
(* half, "Q" = quarter; class = how it is spelled) with a joiner between   *)
(* neighbours.  Spelling classes:                                          *)
(*   SYM N½  SLASH N/2  BARE N2  FRAC N 1/2  WORD North Half               *)
(*   WORDFRAC North 1/2  WORDONE North One Half   (same for quarters)      *)
(*   BAREQ NE  (two letters, no fraction; quarters only)                   *)
(* Joiners: NONE, SPACE, OF (" of "), OFTHE (" of the ").                  *)
(* Recognised(w, clean, i): is component i read as an aliquot?  Everything *)
(* with a fraction always; a bare quarter only under clean_qq or when it   *)
(* follows a half (possibly through other bare quarters).  The normal form *)
(* of a chain all of whose components are recognised is the sequence of    *)
(* its symbols, and normalising is a fixed point.                          *)
(***************************************************************************)
EXTENDS Naturals, Integers, Sequences, FiniteSets, TLC, Json

CONSTANTS MaxLen, Fault, EmitCases

HalfClasses == {"SYM", "SLASH", "BARE", "FRAC", "WORD", "WORDFRAC", "WORDONE"}
QuarterClasses == HalfClasses \cup {"BAREQ"}
Joiners == {"NONE", "SPACE", "OF", "OFTHE"}
Comp(k, c) == [kind |-> k, class |-> c]
Comps == {Comp("H", c) : c \in HalfClasses} \cup {Comp("Q", c) : c \in QuarterClasses}
EndsInLetter(c) == c \in {"WORD", "WORDONE", "BAREQ"}
\* an empty joiner must not glue a word to the next component's letters
\* (a bare quarter may be followed directly by another bare quarter or by a clean symbol: 'E½NENW', 'N½NEW½')
GlueOK(a, j, b) == j # "NONE" \/ ~EndsInLetter(a.class) \/ (a.class = "BAREQ" /\ b.class \in {"BAREQ", "SYM"})

RECURSIVE AfterHalf(_, _)
\* component i is a bare quarter reached from a half through bare quarters only
AfterHalf(w, i) == i > 1 /\ (w[i - 1].kind = "H" \/ (w[i - 1].class = "BAREQ" /\ AfterHalf(w, i - 1)))
Recognised(w, clean, i) ==
  IF Fault = "bare_always" THEN TRUE
  ELSE w[i].class # "BAREQ" \/ clean \/ AfterHalf(w, i)
AllRecognised(w, clean) == \A i \in 1..Len(w) : Recognised(w, clean, i)
\* documented writings: glue rule respected
Documented(w, js) == \A i \in 1..(Len(w) - 1) : GlueOK(w[i], js[i], w[i + 1])

VARIABLES w, js, clean, phase
vars == <<w, js, clean, phase>>
Init == w = <<>> /\ js = <<>> /\ clean \in BOOLEAN /\ phase = "choose"
Choose == /\ phase = "choose"
          /\ \E n \in 1..MaxLen : \E cs \in [1..n -> Comps] : \E j \in [1..(n - 1) -> Joiners] :
               Documented(cs, j) /\ w' = cs /\ js' = j
          /\ phase' = "chosen" /\ UNCHANGED clean
Spec == Init /\ [][Choose]_vars

\* the normal form has one symbol per recognised component, in order
NormalLen == phase = "chosen" /\ AllRecognised(w, clean) => TRUE
FractionsAlwaysRecognised == phase = "chosen" => \A i \in 1..Len(w) : w[i].class # "BAREQ" => Recognised(w, clean, i)
BareOnlyWithContext == phase = "chosen" /\ ~clean => \A i \in 1..Len(w) : (w[i].class = "BAREQ" /\ Recognised(w, clean, i)) => AfterHalf(w, i)
CleanRecognisesAll == phase = "chosen" /\ clean => AllRecognised(w, clean)

EmitCase == (EmitCases /\ phase = "chosen") =>
  PrintT(<<"CASE", ToJson([w |-> w, js |-> js, clean |-> clean,
                           recognised |-> [i \in 1..Len(w) |-> Recognised(w, clean, i)]])>>)
=============================================================================
