----------------------------- MODULE Preprocess -----------------------------
(***************************************************************************)
(* Preprocessing of a description with several Twp/Rge occurrences         *)
(* (pytrs/parser/plssdesc/plss_preprocess.py :: plss_preprocess,           *)
(*  sub_scrubber, reduce_whitespace; rgxlib/twprge.py) - property C08 for  *)
(* whole descriptions, and the behaviour behind known finding F14.         *)
(*                                                                         *)
(* The text is a sequence of atoms:                                        *)
(*   tr     a Twp/Rge as written (template class, numbers, each direction  *)
(*          present or absent "-")                                         *)
(*   canon  a Twp/Rge in the canonical spelling 'T154N-R97W'               *)
(*   sp nl  a blank, a line break                                          *)
(*   p      one punctuation character (x = "." ":" "," ";" "-")            *)
(*   pm     the words 'of the 5th P.M.'                                    *)
(*   fill   other text (x = its number), long enough not to be bridged     *)
(*   junk   the remains of a Twp/Rge that was cut in two (fault only)      *)
(* The code runs six patterns over the text, one after the other           *)
(* (SCRUBBER_REGEXES); each is one action here.  A pattern's match at a    *)
(* position is MatchLen; every match is replaced, where it was found, by   *)
(* the canonical spelling and one blank (Sub).  Fault "replace_all" is     *)
(* the behaviour of the pinned tree: the matches are taken from the text   *)
(* as it was before the pass, and for each in turn EVERY occurrence of its *)
(* text is replaced (str.replace) - which also rewrites the beginning of a *)
(* longer later match, and the beginning of another Twp/Rge whose spelling *)
(* starts with the matched one ('T154N-R9' in 'T154N-R97W').               *)
(***************************************************************************)
EXTENDS Naturals, Integers, Sequences, FiniteSets, TLC, Json

CONSTANTS MaxOcc,        \* Twp/Rge occurrences in a description
          TrailSet,      \* "few" or "all": which runs of punctuation may follow an occurrence
          Fault, EmitCases

A(k, t, ns, r, ew, tm, x) == [k |-> k, t |-> t, ns |-> ns, r |-> r, ew |-> ew, tm |-> tm, x |-> x]
SP == A("sp", 0, "", 0, "", "", "")
NL == A("nl", 0, "", 0, "", "", "")
P(c) == A("p", 0, "", 0, "", "", c)
PM == A("pm", 0, "", 0, "", "", "")
JUNK == A("junk", 0, "", 0, "", "", "")
Fill(i) == A("fill", i, "", 0, "", "", "")

\* --- written forms (the same notions as TwpRgeLex.tla, over fewer values) -------------
Templates == {"T-R", "T.,R.", "Township,Range", "bare"}
HasWords(tm) == tm # "bare"
Forms == [tm : Templates, t : {154}, ns : {"N", "-"}, r : {9, 97}, ew : {"W", "-"}]
Readable(f) == (f.ns = "-" \/ f.ew = "-") => HasWords(f.tm)
Defaults == [ns : {"N", "S"}, ew : {"E", "W"}]
Tr(f) == A("tr", f.t, f.ns, f.r, f.ew, f.tm, "")
Meaning(a, d) == [t |-> a.t, r |-> a.r, ns |-> IF a.ns # "-" THEN a.ns ELSE d.ns, ew |-> IF a.ew # "-" THEN a.ew ELSE d.ew]
Canon(m) == A("canon", m.t, m.ns, m.r, m.ew, "", "")

Trails == IF TrailSet = "few" THEN {<<>>, <<P(".")>>, <<P(":")>>, <<P("."), P(":")>>}
          ELSE {<<>>, <<P(".")>>, <<P(":")>>, <<P(",")>>, <<P("."), P(":")>>, <<NL>>, <<P(","), NL>>, <<P("-")>>}
Occs == [form : {f \in Forms : Readable(f)}, trail : Trails, pm : BOOLEAN]

\* the description: <Twp/Rge><trail> [of the 5th P.M.,] <text i> ; <Twp/Rge> ...
RECURSIVE DocFrom(_, _)
DocFrom(occ, i) ==
  IF i > Len(occ) THEN <<>>
  ELSE <<Tr(occ[i].form)>> \o occ[i].trail \o (IF occ[i].pm THEN <<SP, PM, P(",")>> ELSE <<>>) \o <<SP, Fill(i)>>
       \o (IF i < Len(occ) THEN <<P(";"), SP>> ELSE <<>>) \o DocFrom(occ, i + 1)
Doc(occ) == DocFrom(occ, 1)

\* --- the patterns --------------------------------------------------------------------
IsDead(a) == a.k \in {"sp", "nl", "p"}
RECURSIVE DeadRun(_, _)
DeadRun(s, p) == IF p <= Len(s) /\ IsDead(s[p]) THEN 1 + DeadRun(s, p + 1) ELSE 0
\* length of the match of pattern k that starts at position p (0: none)
\*  1 twprge_regex            needs both directions
\*  2 pp_twprge_no_nswe       needs the T and R words
\*  3 pp_twprge_no_nsr        needs the T word and E/W
\*  4 pp_twprge_no_ewt        needs the R word and N/S
\*  5 pp_twprge_pm            canonical Twp/Rge, dead space, Principal Meridian
\*  6 pp_twprge_comma_remove  canonical Twp/Rge and all dead space after it
MatchLen(k, s, p) ==
  LET a == s[p] IN
  CASE k = 1 -> IF a.k = "canon" \/ (a.k = "tr" /\ a.ns # "-" /\ a.ew # "-") THEN 1 ELSE 0
    [] k = 2 -> IF a.k = "canon" \/ (a.k = "tr" /\ HasWords(a.tm)) THEN 1 ELSE 0
    [] k = 3 -> IF a.k = "canon" \/ (a.k = "tr" /\ HasWords(a.tm) /\ a.ew # "-") THEN 1 ELSE 0
    [] k = 4 -> IF a.k = "canon" \/ (a.k = "tr" /\ HasWords(a.tm) /\ a.ns # "-") THEN 1 ELSE 0
    [] k = 5 -> IF a.k = "canon" /\ p + DeadRun(s, p + 1) + 1 <= Len(s) /\ s[p + DeadRun(s, p + 1) + 1].k = "pm"
                THEN DeadRun(s, p + 1) + 2 ELSE 0
    [] k = 6 -> IF a.k = "canon" THEN 1 + DeadRun(s, p + 1) ELSE 0
Repl(a, d) == <<Canon(Meaning(a, d)), SP>>

\* each match replaced where it was found (re.sub)
RECURSIVE Sub(_, _, _, _)
Sub(k, s, p, d) ==
  IF p > Len(s) THEN <<>>
  ELSE LET n == MatchLen(k, s, p) IN
       IF n > 0 THEN Repl(s[p], d) \o Sub(k, s, p + n, d) ELSE <<s[p]>> \o Sub(k, s, p + 1, d)

\* the pinned tree: matches of the text as it was, then str.replace for each in turn
RECURSIVE MatchesFrom(_, _, _)
MatchesFrom(k, s, p) ==
  IF p > Len(s) THEN <<>>
  ELSE LET n == MatchLen(k, s, p) IN
       IF n > 0 THEN <<SubSeq(s, p, p + n - 1)>> \o MatchesFrom(k, s, p + n) ELSE MatchesFrom(k, s, p + 1)
\* is the written text of tr atom a the beginning of the canonical spelling c ?  ('T154N-R9' of 'T154N-R97W')
BeginsCanon(a, c) == a.k = "tr" /\ c.k = "canon" /\ a.tm = "T-R" /\ a.ns # "-" /\ a.ew = "-"
                     /\ a.t = c.t /\ a.ns = c.ns /\ a.r = 9 /\ c.r = 97
RECURSIVE ReplaceAll(_, _, _, _)
ReplaceAll(s, pat, rep, p) ==
  IF p > Len(s) THEN <<>>
  ELSE IF p + Len(pat) - 1 <= Len(s) /\ SubSeq(s, p, p + Len(pat) - 1) = pat
       THEN rep \o ReplaceAll(s, pat, rep, p + Len(pat))
  ELSE IF Len(pat) = 1 /\ BeginsCanon(pat[1], s[p]) THEN rep \o <<JUNK>> \o ReplaceAll(s, pat, rep, p + 1)
  ELSE <<s[p]>> \o ReplaceAll(s, pat, rep, p + 1)
RECURSIVE ReplaceEach(_, _, _, _)
ReplaceEach(s, ms, j, d) == IF j > Len(ms) THEN s ELSE ReplaceEach(ReplaceAll(s, ms[j], Repl(ms[j][1], d), 1), ms, j + 1, d)

RunPass(k, s, d) == IF Fault = "replace_all" THEN ReplaceEach(s, MatchesFrom(k, s, 1), 1, d) ELSE Sub(k, s, 1, d)

\* reduce_whitespace: runs of blanks become one blank (the text here neither begins nor ends with one)
RECURSIVE Squeeze(_, _)
Squeeze(s, p) == IF p > Len(s) THEN <<>>
                 ELSE IF s[p].k = "sp" /\ p < Len(s) /\ s[p + 1].k = "sp" THEN Squeeze(s, p + 1)
                 ELSE <<s[p]>> \o Squeeze(s, p + 1)
RECURSIVE RunFrom(_, _, _)
RunFrom(k, s, d) == IF k > 6 THEN Squeeze(s, 1) ELSE RunFrom(k + 1, RunPass(k, s, d), d)
Preprocessed(s, d) == RunFrom(1, s, d)

---------------------------------------------------------------------------
VARIABLES occ, dflt, atoms, pass
vars == <<occ, dflt, atoms, pass>>
Init == occ = <<>> /\ dflt \in Defaults /\ atoms = <<>> /\ pass = 0
\* the description is written one occurrence at a time (keeps TLC's successor sets small), then preprocessing starts
AddOcc == /\ pass = 0 /\ Len(occ) < MaxOcc
          /\ \E o \in Occs : occ' = Append(occ, o)
          /\ UNCHANGED <<dflt, atoms, pass>>
Start == /\ pass = 0 /\ Len(occ) >= 1
         /\ atoms' = Doc(occ) /\ pass' = 1 /\ UNCHANGED <<occ, dflt>>
RunTwpRge == pass = 1 /\ atoms' = RunPass(1, atoms, dflt) /\ pass' = 2 /\ UNCHANGED <<occ, dflt>>
RunNoNSWE == pass = 2 /\ atoms' = RunPass(2, atoms, dflt) /\ pass' = 3 /\ UNCHANGED <<occ, dflt>>
RunNoNSR == pass = 3 /\ atoms' = RunPass(3, atoms, dflt) /\ pass' = 4 /\ UNCHANGED <<occ, dflt>>
RunNoEWT == pass = 4 /\ atoms' = RunPass(4, atoms, dflt) /\ pass' = 5 /\ UNCHANGED <<occ, dflt>>
RunPM == pass = 5 /\ atoms' = RunPass(5, atoms, dflt) /\ pass' = 6 /\ UNCHANGED <<occ, dflt>>
RunCommaRemove == pass = 6 /\ atoms' = RunPass(6, atoms, dflt) /\ pass' = 7 /\ UNCHANGED <<occ, dflt>>
Reduce == pass = 7 /\ atoms' = Squeeze(atoms, 1) /\ pass' = 8 /\ UNCHANGED <<occ, dflt>>
Next == AddOcc \/ Start \/ RunTwpRge \/ RunNoNSWE \/ RunNoNSR \/ RunNoEWT \/ RunPM \/ RunCommaRemove \/ Reduce
Spec == Init /\ [][Next]_vars

\* --- properties -------------------------------------------------------------------------
Done == pass = 8
Want == [i \in 1..Len(occ) |-> Meaning(Tr(occ[i].form), dflt)]
CanonsOf(s) == SelectSeq(s, LAMBDA a : a.k = "canon")
\* every Twp/Rge ends up in the canonical spelling, with the meaning of its own occurrence, in reading order
AllCanonical == Done => /\ \A p \in 1..Len(atoms) : atoms[p].k \notin {"tr", "junk"}
                        /\ Len(CanonsOf(atoms)) = Len(occ)
                        /\ \A i \in 1..Len(occ) : CanonsOf(atoms)[i] = Canon(Want[i])
\* nothing of the punctuation / Principal Meridian after a Twp/Rge is left behind
NoResidue == Done => \A p \in 1..Len(atoms) : atoms[p].k = "canon" => p + 2 <= Len(atoms) /\ atoms[p + 1] = SP /\ atoms[p + 2].k = "fill"
\* all other text is kept as it was, in order
OthersKept == Done => SelectSeq(atoms, LAMBDA a : a.k = "fill") = [i \in 1..Len(occ) |-> Fill(i)]
\* the whole result, as one equation
Expected == LET RECURSIVE E(_)
                E(i) == IF i > Len(occ) THEN <<>>
                        ELSE <<Canon(Want[i]), SP, Fill(i)>> \o (IF i < Len(occ) THEN <<P(";"), SP>> ELSE <<>>) \o E(i + 1)
            IN E(1)
ResultIsExpected == Done => atoms = Expected
\* preprocessing its own result changes nothing
FixedPoint == Done => Preprocessed(atoms, dflt) = atoms
\* the step-by-step run and the function agree (the trace specification uses the function)
StepsAreFunction == Done => atoms = Preprocessed(Doc(occ), dflt)
\* the result does not depend on the defaults when nothing is missing
DefaultsOnlyFillGaps == Done /\ (\A i \in 1..Len(occ) : occ[i].form.ns # "-" /\ occ[i].form.ew # "-")
                          => \A d \in Defaults : Preprocessed(Doc(occ), d) = atoms

EmitCase == (EmitCases /\ Done) => PrintT(<<"CASE", ToJson([occ |-> occ, dflt |-> dflt, final |-> atoms])>>)
=============================================================================
