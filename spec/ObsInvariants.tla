---------------------------- MODULE ObsInvariants ----------------------------
(***************************************************************************)
(* Predicates over the projected public observation of one PLSSDesc parse  *)
(* (properties C03, C04, C09, C10, C11).  No variables.                    *)
(*                                                                         *)
(* An observation o is a record                                            *)
(*  exc        "none" or the exception class                               *)
(*  layout     current_layout                                              *)
(*  tracts     sequence of                                                 *)
(*     [trs: chars, attrs: {twp:{k,n,d,s}, rge:.., sec:.., twprge: chars}, *)
(*      whole: desc = entire preprocessed text up to cleaned ends,         *)
(*      verbatim: desc = entire preprocessed text, orig_ok, source_ok,     *)
(*      index: orig_index, markers: marker ids found in desc,              *)
(*      wflags, eflags: interned flags, typed: all flags str and all lines *)
(*      (str, str) tuples, wfirsts/efirsts: interned first components]     *)
(*  wflags, eflags, wfirsts, efirsts   the same for the description        *)
(*  typed      all four lists of the description well-typed                *)
(*  flawed     desc_is_flawed                                              *)
(*  unused     marker ids found in unused_desc<...> error flags            *)
(*  trig       sequence of [kind, raised, in_context] per trigger phrase   *)
(***************************************************************************)
EXTENDS TrsForm

Count(x, s) == Cardinality({j \in 1..Len(s) : s[j] = x})
SameBag(a, b) == Len(a) = Len(b) /\ \A j \in 1..Len(a) : Count(a[j], a) = Count(a[j], b)
SubBag(a, b) == \A j \in 1..Len(a) : Count(a[j], a) <= Count(a[j], b)

---------------------------------------------------------------------------
\* C03
Returned(o) == o.exc = "none"
AtLeastOneTract(o) == Len(o.tracts) >= 1

---------------------------------------------------------------------------
\* C09
NoUndef(s) == LET d == Decompose(s) IN d.twp.k # "undef" /\ d.rge.k # "undef" /\ d.sec.k # "undef"
AttrTRo(a) == IF a.k = "num" THEN Num(a.n, a.d) ELSE IF a.k = "undef" THEN Undef ELSE Err
AttrSeco(a) == IF a.k = "num" THEN SNum(a.n) ELSE IF a.k = "undef" THEN Undef ELSE Err
AttrsDecompose(t) ==
  LET d == Decompose(t.trs)
      sp == CHOOSE p \in Splits(t.trs) : TRUE
      a == SubSeq(t.trs, 1, sp[1])
      b == SubSeq(t.trs, sp[1] + 1, sp[2])
      c == SubSeq(t.trs, sp[2] + 1, Len(t.trs))
  IN /\ d.twp = AttrTRo(t.attrs.twp) /\ d.rge = AttrTRo(t.attrs.rge) /\ d.sec = AttrSeco(t.attrs.sec)
     /\ t.attrs.twp.s = a /\ t.attrs.rge.s = b /\ t.attrs.sec.s = c /\ t.attrs.twprge = a \o b
TractClauseC09(t, pos) ==
  IF ~IsExtStd(t.trs) THEN "trs_not_standard_form"
  ELSE IF ~NoUndef(t.trs) THEN "trs_uses_undefined_placeholder"
  ELSE IF ~AttrsDecompose(t) THEN "attributes_not_decomposition"
  ELSE IF ~t.orig_ok THEN "orig_desc_not_full_text"
  ELSE IF ~t.source_ok THEN "source_not_parents"
  ELSE IF t.index # pos - 1 THEN "orig_index_not_position"
  ELSE "ok"
ClauseC09(o) ==
  IF o.exc # "none" THEN "ok"           \* an exception is C03's business
  ELSE IF \E j \in 1..Len(o.tracts) : TractClauseC09(o.tracts[j], j) # "ok"
       THEN TractClauseC09(o.tracts[CHOOSE j \in 1..Len(o.tracts) : TractClauseC09(o.tracts[j], j) # "ok"],
                           CHOOSE j \in 1..Len(o.tracts) : TractClauseC09(o.tracts[j], j) # "ok")
  ELSE "ok"

---------------------------------------------------------------------------
\* C10
AnyErrorTrs(o) == \E j \in 1..Len(o.tracts) : ~IsExtStd(o.tracts[j].trs) \/ HasErrorPart(o.tracts[j].trs)
ClauseC10(o) ==
  IF o.exc # "none" THEN "ok"
  ELSE IF ~o.typed THEN "description_flags_ill_typed"
  ELSE IF \E j \in 1..Len(o.tracts) : ~o.tracts[j].typed THEN "tract_flags_ill_typed"
  ELSE IF ~SameBag(o.wflags, o.wfirsts) \/ ~SameBag(o.eflags, o.efirsts) THEN "flags_not_paired_with_lines"
  ELSE IF \E j \in 1..Len(o.tracts) : ~SameBag(o.tracts[j].wflags, o.tracts[j].wfirsts)
                                      \/ ~SameBag(o.tracts[j].eflags, o.tracts[j].efirsts) THEN "tract_flags_not_paired"
  ELSE IF \E j \in 1..Len(o.tracts) : ~SubBag(o.wflags, o.tracts[j].wflags) \/ ~SubBag(o.eflags, o.tracts[j].eflags)
       THEN "description_flag_missing_on_tract"
  ELSE IF o.flawed # (Len(o.eflags) > 0) THEN "flawed_iff_error_flag_broken"
  ELSE IF AnyErrorTrs(o) /\ Len(o.eflags) = 0 THEN "error_trs_without_error_flag"
  ELSE IF \E j \in 1..Len(o.trig) : ~o.trig[j].raised THEN "trigger_wording_not_flagged"
  ELSE IF \E j \in 1..Len(o.trig) : ~o.trig[j].in_context THEN "trigger_words_not_in_context"
  ELSE "ok"

---------------------------------------------------------------------------
\* C11  (x = what the abstract input and configuration say)
\*   x.forced_copy_all  copy_all requested by keyword / config / parse argument
\*   x.must_fall_back   no Twp/Rge, no section, or every section rejected (see PlssDesc!MustFallBack)
\*   x.both_found       a Twp/Rge and a (numbered) section occur in the text
Wholes(o) == {j \in 1..Len(o.tracts) : o.tracts[j].whole}
ClauseC11(o, x) ==
  IF o.exc # "none" THEN "ok"
  ELSE IF Cardinality(Wholes(o)) > 1 THEN "two_tracts_carry_the_complete_text"
  ELSE IF x.forced_copy_all /\ (Len(o.tracts) # 1 \/ Wholes(o) = {}) THEN "forced_copy_all_not_one_whole_tract"
  ELSE IF o.layout = "copy_all" /\ (Len(o.tracts) # 1 \/ Wholes(o) = {}) THEN "copy_all_not_one_whole_tract"
  \* the copy_all layout itself (requested, or deduced for lack of a Twp/Rge or section) hands the text over untouched;
  \* only the fallback from another layout passes through the clean-up of the ends
  ELSE IF o.layout = "copy_all" /\ Len(o.tracts) = 1 /\ ~o.tracts[1].verbatim THEN "copy_all_text_not_verbatim"
  ELSE IF x.must_fall_back /\ (Len(o.tracts) # 1 \/ Wholes(o) = {}) THEN "fallback_not_one_whole_tract"
  ELSE IF x.must_fall_back /\ ~x.both_found /\ Len(o.eflags) = 0 THEN "fallback_without_error_flag"
  ELSE "ok"

---------------------------------------------------------------------------
\* C04: every marker word is in some tract description or in an unused-text flag
Kept(o, m) == (\E j \in 1..Len(o.tracts) : \E q \in 1..Len(o.tracts[j].markers) : o.tracts[j].markers[q] = m)
              \/ (\E q \in 1..Len(o.unused) : o.unused[q] = m)
ClauseC04(o, markers) ==
  IF o.exc # "none" THEN "ok"
  ELSE IF \E q \in 1..Len(markers) : ~Kept(o, markers[q]) THEN "word_dropped_without_flag"
  ELSE "ok"

ClauseC03(o) == IF ~Returned(o) THEN "exception_raised"
                ELSE IF ~AtLeastOneTract(o) THEN "no_tract_produced" ELSE "ok"
=============================================================================
