-------------------------- MODULE PreprocessTrace --------------------------
(***************************************************************************)
(* Trace validation for Preprocess.tla (C08 on whole descriptions).        *)
(* One record per rendered description:                                    *)
(*  {"id", "occ": [[form, trail, pm]], "dflt",                             *)
(*   "obs":    the preprocessed text (PLSSDesc.pp_desc) read back as atoms *)
(*             by harness/drivers/c08.py :: lex_pp,                        *)
(*   "found":  [[t, ns, r, ew]] from find_twprge(text, preprocess=True),   *)
(*   "tracts": the same from the tracts' Twp/Rge,                          *)
(*   "leftover": a Twp/Rge in another than the canonical spelling is left, *)
(*   "again":  preprocessing pp_desc once more gives pp_desc,              *)
(*   "as_written_out": the tracts (Twp/Rge/Sec and description) equal the  *)
(*             tracts of the same text with the defaults written out,"exc"}*)
(* Verdict evaluates the property (C08); Drift compares the observed atoms *)
(* with the model's prediction Preprocessed(Doc(occ), dflt).               *)
(***************************************************************************)
EXTENDS Preprocess, IOUtils

VARIABLE l
Trace == JsonDeserialize(IOEnv.TRACE_FILE)
tvars == <<vars, l>>
TraceInit == l = 1 /\ occ = <<>> /\ dflt = [ns |-> "N", ew |-> "W"] /\ atoms = <<>> /\ pass = 0
Consume == /\ l <= Len(Trace) /\ l' = l + 1
           /\ occ' = Trace[l].occ /\ dflt' = Trace[l].dflt /\ atoms' = Trace[l].obs /\ pass' = 8
TraceSpec == TraceInit /\ [][Consume]_tvars
Rec == Trace[l - 1]

Tup(m) == <<m.t, m.ns, m.r, m.ew>>
WantT == [i \in 1..Len(occ) |-> Tup(Want[i])]
ObsCanons == [i \in 1..Len(CanonsOf(atoms)) |-> Tup(CanonsOf(atoms)[i])]
Overridden(got) == \E i \in 1..Len(occ) : i <= Len(got) /\
                      ((occ[i].form.ns # "-" /\ got[i][2] # occ[i].form.ns) \/ (occ[i].form.ew # "-" /\ got[i][4] # occ[i].form.ew))
Clause(r) ==
  IF r.exc # "none" THEN "exception_raised"
  ELSE IF Overridden(ObsCanons) \/ Overridden(r.tracts) THEN "explicit_direction_overridden"
  ELSE IF ObsCanons # WantT THEN "preprocessed_twprge_differs"
  ELSE IF r.leftover THEN "preprocessed_text_not_in_canonical_spelling"
  ELSE IF r.found # WantT THEN "find_twprge_differs"
  ELSE IF r.tracts # WantT THEN "tract_twprge_differs"
  ELSE IF ~r.as_written_out THEN "not_the_tracts_of_the_written_out_text"
  ELSE "ok"
Verdict == pass = 8 => (Clause(Rec) = "ok" \/ PrintT(<<"FAIL", Rec.id, Clause(Rec)>>))
Drift == pass = 8 /\ Rec.exc = "none" =>
           (atoms = Preprocessed(Doc(occ), dflt) /\ Rec.again) \/ PrintT(<<"INFO", "drift", Rec.id>>)
AllConsumed ==
  /\ PrintT(<<"INFO", "consumed", TLCGet("stats").diameter - 1, Len(Trace)>>)
  /\ TLCGet("stats").diameter - 1 = Len(Trace)
=============================================================================
