---------------------------- MODULE GlobalState ----------------------------
(***************************************************************************)
(* Process-global state of pyTRS and the purity of parsing (C15):          *)
(*   MasterConfig.default_ns / default_ew, the TRS cache (TRS.__CACHE,     *)
(*   TRS._USE_CACHE), dictionaries and lists handed to callers.            *)
(* A history is a sequence of global actions followed by probes; a probe's *)
(* outcome must be Pure(probe, MasterConfig in force): it may depend on    *)
(* nothing else.  The cache is modelled with a ghost mark per key ("ok" /  *)
(* "bad") so that the design fault "the public conversion returns the      *)
(* cached dict" visibly breaks CacheSound.                                 *)
(***************************************************************************)
EXTENDS Naturals, Sequences, FiniteSets, TLC, Json

CONSTANTS MaxOps, Fault, EmitCases

Keys == {"k1", "k2", "kerr"}                   \* Twp/Rge/Sec strings; k1 is the one the probes use
Probes == {"plss_nodir", "plss_full", "tract_build", "trs_attrs", "trs_dict", "find_twprge", "plss_qq", "trslist",
           "plss_ocrlike", "tract_bareqq",     \* (texts that only the optional OCR / clean_qq patterns would read)
           "held_parse",                       \* parse() of an object that may have been created earlier, under other defaults
           "cfg_parse",                        \* a parse configured with a Config object the caller has used before
           "tract_deep",                       \* aliquots of three and four components under a maximum depth
           "held_tract"}                       \* parse() of a tract the caller keeps (created at first use, maybe dry-run before)
NS == {"n", "s"}   EW == {"e", "w"}
Default == [ns |-> "n", ew |-> "w"]
MutateVia == {"trs_to_dict_str", "trs_to_dict_obj", "tract_to_dict", "tracts_to_dict", "tracts_to_list", "flag_lists"}
Others == {"o1", "o2", "o3", "o4", "o5"}        \* o3: parsed with ocr_scrub, o4: parsed with clean_qq / find_twprge(ocr_scrub),
                                                \* o5: the aliquots of probe tract_deep parsed under other depth settings
\* which MasterConfig components a probe may depend on
UsesNS(p) == p \in {"plss_nodir", "tract_build", "find_twprge", "held_parse", "cfg_parse"}
UsesEW(p) == p \in {"tract_build", "find_twprge", "cfg_parse"}
Pure(p, m) == [p |-> p, ns |-> IF UsesNS(p) THEN m.ns ELSE "-", ew |-> IF UsesEW(p) THEN m.ew ELSE "-"]
\* which cache keys a probe reads
Reads(p) == IF p \in {"find_twprge", "tract_bareqq"} THEN {} ELSE {"k1"}
NoHeld == [ns |-> "-", ew |-> "-"]
Warms(o) == IF o \in {"o1", "o3"} THEN {"k1", "k2"} ELSE {"k2", "kerr"}

Op(name, a, b) == [name |-> name, a |-> a, b |-> b]
VARIABLES mc, usecache, cache, result, hist,
          held,       \* the MasterConfig under which the held (created, not yet parsed) description was made; NoHeld: none
          cfgobj,     \* what the caller's shared Config object says about the default directions (NoHeld: nothing)
          asked,      \* the layout of the probes' text has been asked for with a restricted list of candidates
          dry         \* the kept objects have been parsed with commit=False under other settings
vars == <<mc, usecache, cache, result, hist, held, cfgobj, asked, dry>>
Init == mc = Default /\ usecache = TRUE /\ cache = [k \in {} |-> "ok"] /\ result = Pure("trs_attrs", Default) /\ hist = <<>>
        /\ held = NoHeld /\ cfgobj = NoHeld /\ asked = FALSE /\ dry = FALSE

Warm(c, ks) == IF usecache THEN [k \in DOMAIN c \cup ks |-> IF k \in DOMAIN c THEN c[k] ELSE "ok"] ELSE c
Step(op) == Len(hist) < MaxOps /\ hist' = Append(hist, op)
SetMC == \E n \in NS : \E e \in EW : mc' = [ns |-> n, ew |-> e] /\ Step(Op("set_mc", n, e)) /\ UNCHANGED <<usecache, cache, result, held, cfgobj, asked, dry>>
RestoreMC == mc' = Default /\ Step(Op("restore_mc", "-", "-")) /\ UNCHANGED <<usecache, cache, result, held, cfgobj, asked, dry>>
ClearCache == cache' = [k \in {} |-> "ok"] /\ Step(Op("clear_cache", "-", "-")) /\ UNCHANGED <<mc, usecache, result, held, cfgobj, asked, dry>>
SetUseCache == \E b \in {"on", "off"} : usecache' = (b = "on") /\ Step(Op("use_cache", b, "-")) /\ UNCHANGED <<mc, cache, result, held, cfgobj, asked, dry>>
ParseOther == \E o \in Others : cache' = Warm(cache, Warms(o)) /\ Step(Op("parse_other", o, "-")) /\ UNCHANGED <<mc, usecache, result, held, cfgobj, asked, dry>>
MakeTRS == \E k \in Keys : cache' = Warm(cache, {k}) /\ Step(Op("make_trs", k, "-")) /\ UNCHANGED <<mc, usecache, result, held, cfgobj, asked, dry>>
\* the caller modifies a dict / list it got from a conversion function
Mutate == \E k \in {"k1", "k2"} : \E via \in MutateVia :
            /\ cache' = IF Fault = "share_dict" /\ via = "trs_to_dict_obj" /\ k \in DOMAIN cache
                        THEN [cache EXCEPT ![k] = "bad"] ELSE Warm(cache, {k})
            /\ Step(Op("mutate", k, via)) /\ UNCHANGED <<mc, usecache, result, held, cfgobj, asked, dry>>
\* a description is created with wait_to_parse under the defaults in force now, and kept
Hold == held' = mc /\ Step(Op("hold", "-", "-")) /\ UNCHANGED <<mc, usecache, cache, result, cfgobj, asked, dry>>
\* the caller builds a tract from components with explicit default directions, handing in the shared Config object:
\* the library reads the object, it does not write to it
UseCfg == /\ cfgobj' = (IF Fault = "cfg_obj_written" THEN [ns |-> "s", ew |-> "e"] ELSE cfgobj)
          /\ cache' = Warm(cache, {"k1"})
          /\ Step(Op("use_cfg", "s", "e")) /\ UNCHANGED <<mc, usecache, result, held, asked, dry>>
\* deduce_layout(candidates=[...]) on the text the description probes use: a question, it leaves nothing behind
AskLayout == asked' = TRUE /\ Step(Op("ask_layout", "-", "-")) /\ UNCHANGED <<mc, usecache, cache, result, held, cfgobj, dry>>
\* parse(commit=False, other settings) on the kept description's tracts and on the kept tract: a preview, nothing stays
DryRun == dry' = TRUE /\ Step(Op("dry_run", "-", "-")) /\ UNCHANGED <<mc, usecache, cache, result, held, cfgobj, asked>>
\* a description is created with a config text that holds an unknown setting name: rejected (ValueError), every time,
\* and nothing stays behind
BadConfig == Step(Op("bad_config", "-", "-")) /\ UNCHANGED <<mc, usecache, cache, result, held, cfgobj, asked, dry>>
Probe == \E p \in Probes :
           /\ result' = (IF \E k \in Reads(p) : k \in DOMAIN cache /\ cache[k] = "bad" THEN [p |-> p, ns |-> "corrupt", ew |-> "corrupt"]
                         ELSE IF Fault = "freeze_default" THEN Pure(p, Default)
                         ELSE IF Fault = "held_keeps_defaults" /\ p = "held_parse" /\ held # NoHeld THEN Pure(p, held)
                         ELSE IF Fault = "dry_run_leaves_flags" /\ dry /\ p = "held_tract" THEN [p |-> p, ns |-> "corrupt", ew |-> "corrupt"]
                         ELSE IF p = "cfg_parse" /\ cfgobj # NoHeld THEN Pure(p, cfgobj)
                         ELSE IF Fault = "layout_remembered" /\ asked /\ p \in {"plss_full", "plss_nodir"}
                              THEN [p |-> p, ns |-> "corrupt", ew |-> "corrupt"]
                         ELSE Pure(p, mc))
           /\ cache' = Warm(cache, Reads(p))
           \* (held_parse parses the held object, or a new one if there is none; the object stays)
           /\ held' = IF p = "held_parse" /\ held = NoHeld THEN mc ELSE held
           /\ Step(Op("probe", p, "-")) /\ UNCHANGED <<mc, usecache, cfgobj, asked, dry>>
Next == SetMC \/ RestoreMC \/ ClearCache \/ SetUseCache \/ ParseOther \/ MakeTRS \/ Mutate \/ Hold \/ UseCfg \/ AskLayout \/ DryRun \/ BadConfig \/ Probe
Spec == Init /\ [][Next]_vars

CacheSound == \A k \in DOMAIN cache : cache[k] = "ok"
ProbeIsPure == Len(hist) > 0 /\ hist[Len(hist)].name = "probe" => result = Pure(hist[Len(hist)].a, mc)
RestoreRestores == Len(hist) > 0 /\ hist[Len(hist)].name = "restore_mc" => mc = Default

\* the invariants read only the last entry of the history: states that differ in older entries alone are one state for
\* the model-checking runs (the runs that print behaviours keep the whole history)
LastOnly == <<mc, usecache, cache, result, held, cfgobj, asked, dry, Len(hist), IF hist = <<>> THEN Op("-", "-", "-") ELSE hist[Len(hist)]>>

EndsWithProbe == Len(hist) = MaxOps /\ hist[Len(hist)].name = "probe"
EmitCase == (EmitCases /\ EndsWithProbe) => PrintT(<<"CASE", ToJson([ops |-> hist])>>)
=============================================================================
