---------------------------- MODULE ElidedList ----------------------------
(***************************************************************************)
(* Elided lists of section / lot numbers ("Sections 1 - 3, 5 and 9 - 7")   *)
(* and the right-to-left scan pyTRS uses to unpack them                    *)
(* (pytrs/parser/unpack/unpackers.py :: SecUnpacker.unpack_sections,       *)
(*  LotUnpacker.unpack_lots).                                              *)
(*                                                                         *)
(* An input is  n1 c1 n2 c2 ... nk  with ci in {"AND","THRU"} and, for the *)
(* lot flavour, a flag kw[i] saying that the keyword ("Lot") is repeated   *)
(* directly before ni.                                                     *)
(* Expand is the left-to-right denotation property C05 states; the PlusCal *)
(* algorithm is the loop of the code with its variables (endpos ~ i,       *)
(* found_through, working list, word_lot_encountered, flags).              *)
(***************************************************************************)
EXTENDS ListDenot, TLC, Json

CONSTANTS MaxK,       \* maximal number of written numbers
          Nums,       \* the numbers that may be written
          Fault,      \* "none" or an injected fault
          EmitCases

\* [1..k -> S] is enumerated natively by TLC (and equals Seq-of-length-k)
Inputs == UNION {
   [nums : [1..k -> Nums], conns : [1..(k - 1) -> Conn], kw : [1..k -> BOOLEAN]]
   : k \in 1..MaxK}

(* --algorithm Scan {
  variables input \in Inputs,
            i = Len(input.nums),     \* the number the next search will find rightmost
            working = <<>>,          \* working_sec_list / working_lot_list
            found = FALSE,           \* found_through
            nflags = 0,              \* nonsequential warnings raised
            wle = 0,                 \* word_lot_encountered
            result = <<>>, athru = 0, done = FALSE;
  {
   scan: while (i >= 1) {
      if (found) {
         \* expand against the number to the right (the last one appended)
         if (input.nums[i] < Last(working)) {
            working := working \o RangeTail(Last(working), input.nums[i]);
         } else {
            nflags := nflags + 1;
            if (Fault = "descending_off_by_one") {
               working := working \o RangeTail(Last(working) + 1, input.nums[i]);
            } else {
               working := working \o RangeTail(Last(working), input.nums[i]);
            }
         }
      } else {
         working := Append(working, input.nums[i]);
      };
      found := i > 1 /\ input.conns[i - 1] = "THRU" /\ Fault # "forget_through";
      if (i > 1 /\ input.kw[i] /\ ~found) { wle := Len(working) };
      i := i - 1;
   };
   fin: result := Rev(working);
        athru := Len(working) - wle;
        done := TRUE;
  }
} *)
\* BEGIN TRANSLATION
VARIABLES pc, input, i, working, found, nflags, wle, result, athru, done

vars == << pc, input, i, working, found, nflags, wle, result, athru, done >>

Init == (* Global variables *)
        /\ input \in Inputs
        /\ i = Len(input.nums)
        /\ working = <<>>
        /\ found = FALSE
        /\ nflags = 0
        /\ wle = 0
        /\ result = <<>>
        /\ athru = 0
        /\ done = FALSE
        /\ pc = "scan"

scan == /\ pc = "scan"
        /\ IF i >= 1
              THEN /\ IF found
                         THEN /\ IF input.nums[i] < Last(working)
                                    THEN /\ working' = working \o RangeTail(Last(working), input.nums[i])
                                         /\ UNCHANGED nflags
                                    ELSE /\ nflags' = nflags + 1
                                         /\ IF Fault = "descending_off_by_one"
                                               THEN /\ working' = working \o RangeTail(Last(working) + 1, input.nums[i])
                                               ELSE /\ working' = working \o RangeTail(Last(working), input.nums[i])
                         ELSE /\ working' = Append(working, input.nums[i])
                              /\ UNCHANGED nflags
                   /\ found' = (i > 1 /\ input.conns[i - 1] = "THRU" /\ Fault # "forget_through")
                   /\ IF i > 1 /\ input.kw[i] /\ ~found'
                         THEN /\ wle' = Len(working')
                         ELSE /\ TRUE
                              /\ wle' = wle
                   /\ i' = i - 1
                   /\ pc' = "scan"
              ELSE /\ pc' = "fin"
                   /\ UNCHANGED << i, working, found, nflags, wle >>
        /\ UNCHANGED << input, result, athru, done >>

fin == /\ pc = "fin"
       /\ result' = Rev(working)
       /\ athru' = Len(working) - wle
       /\ done' = TRUE
       /\ pc' = "Done"
       /\ UNCHANGED << input, i, working, found, nflags, wle >>

(* Allow infinite stuttering to prevent deadlock on termination. *)
Terminating == pc = "Done" /\ UNCHANGED vars

Next == scan \/ fin
           \/ Terminating

Spec == Init /\ [][Next]_vars

Termination == <>(pc = "Done")

\* END TRANSLATION

---------------------------------------------------------------------------
ScanEqualsDenotation == done => result = Expand(input.nums, input.conns)
FlagIffNonAscending  == done => ((nflags > 0) <=> NonAscending(input.nums, input.conns))
DescendingFlagged    == done /\ Descending(input.nums, input.conns) => nflags > 0
ShiftInvariant       == done => Expand(Shift(input.nums, 7), input.conns) = Shift(result, 7)
AliquotsThroughOK    == done => athru = AliquotsThrough(input.nums, input.conns, input.kw)
LengthOK             == done => Len(result) >= Len(input.nums) \/ NonAscending(input.nums, input.conns)

CaseRecord == [nums |-> input.nums, conns |-> input.conns, kw |-> input.kw,
               expect |-> result, nflags |-> nflags, athru |-> athru]
EmitCase == (EmitCases /\ done) => PrintT(<<"CASE", ToJson(CaseRecord)>>)
=============================================================================
