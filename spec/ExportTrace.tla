---------------------------- MODULE ExportTrace ----------------------------
(***************************************************************************)
(* Trace validation for C19.  Event kinds:                                 *)
(*  file events (one per call of a history, "start" first):                *)
(*   {"tid", "seq", "kind": "file", "op": {name, mode, d},                 *)
(*    "ptags": per row which additional cells it carries (see Export),     *)
(*    "rows": [[d, i]]   the file re-read with csv.reader after the call,  *)
(*                       each row identified ([0,0] = the expected header  *)
(*                       row, [d,i] = tract i of description d, [-1,-1] =  *)
(*                       anything else),                                   *)
(*    "ret": {kind, n}, "cells_ok": every cell of every tract row holds    *)
(*                       the attribute's value (scalar: equal as text;     *)
(*                       list / dict: its leaves in order), "exc"}         *)
(*  record events: {"kind": "records", "form", "n_tracts", "n_records",    *)
(*    "order_ok", "keys_ok", "values_ok", "unknown_ok", "exc"}             *)
(***************************************************************************)
EXTENDS Export, IOUtils

VARIABLES l, failed
Trace == JsonDeserialize(IOEnv.TRACE_FILE)
tvars == <<vars, l, failed>>
TraceInit == l = 1 /\ failed = FALSE /\ exists = FALSE /\ rows = <<>> /\ writer = "none" /\ ret = None /\ hist = <<>>
             /\ uid = -1 /\ uids = <<>> /\ ptags = <<>>

ModelStep(o) ==      \* [rows, uids, uid, exists, writer, ret] after operation o in the current state
  CASE o.name = "start" -> [rows |-> IF o.mode = "exists" THEN <<H, <<2, 1>>>> ELSE <<>>, exists |-> o.mode = "exists",
                            uids |-> IF o.mode = "exists" THEN Blank(2) ELSE <<>>, uid |-> -1, writer |-> "none", ret |-> None,
                            ptags |-> IF o.mode = "exists" THEN Zeros(2) ELSE <<>>]
    [] o.name = "csv" -> LET r2 == IF o.mode = "w" THEN <<H>> \o Rows(o.d) ELSE IF exists THEN rows \o Rows(o.d) ELSE rows \o <<H>> \o Rows(o.d)
                         IN [rows |-> r2, uids |-> IF o.mode = "w" THEN Blank(Len(r2)) ELSE uids \o Blank(Len(r2) - Len(rows)),
                             uid |-> uid, exists |-> TRUE, writer |-> writer, ret |-> None,
                             ptags |-> IF o.mode = "w" THEN Zeros(Len(r2)) ELSE ptags \o Zeros(Len(r2) - Len(rows))]
    [] o.name = "winit" -> LET r2 == IF o.mode = "w" THEN <<H>> ELSE IF exists THEN rows ELSE <<H>>
                           IN [rows |-> r2, uids |-> IF o.mode = "w" \/ ~exists THEN Blank(Len(r2)) ELSE uids,
                               uid |-> IF o.d = 0 THEN -1 ELSE o.d, exists |-> TRUE, writer |-> "open", ret |-> None,
                               ptags |-> IF o.mode = "w" \/ ~exists THEN [i \in 1..Len(r2) |-> IF o.p = 1 THEN PH ELSE 0] ELSE ptags]
    [] o.name = "wwrite" -> IF writer = "closed" THEN [rows |-> rows, uids |-> uids, uid |-> uid, exists |-> exists, writer |-> writer,
                                                       ret |-> [kind |-> "RuntimeError", n |-> 0], ptags |-> ptags]
                            ELSE [rows |-> IF o.d = 0 THEN rows ELSE rows \o Rows(o.d),
                                  uids |-> IF o.d = 0 THEN uids ELSE uids \o UidRows(uid, o.d),
                                  uid |-> IF uid < 0 THEN uid ELSE uid + 1, exists |-> exists, writer |-> writer,
                                  ret |-> [kind |-> "count", n |-> IF o.d = 0 THEN 0 ELSE NTracts(o.d)],
                                  ptags |-> IF o.d = 0 THEN ptags ELSE ptags \o [i \in 1..NTracts(o.d) |-> o.p]]
    [] o.name = "wwrite_bad" -> [rows |-> rows, uids |-> uids, uid |-> uid, exists |-> exists, writer |-> writer,
                                ret |-> [kind |-> IF writer = "closed" THEN "RuntimeError" ELSE "TypeError", n |-> 0], ptags |-> ptags]
    [] o.name = "wclose" -> [rows |-> rows, uids |-> uids, uid |-> uid, exists |-> exists, writer |-> "closed", ret |-> None, ptags |-> ptags]
    [] o.name = "wopen" -> [rows |-> rows, uids |-> uids, uid |-> uid, exists |-> exists, writer |-> "open", ret |-> None, ptags |-> ptags]

Consume ==
  /\ l <= Len(Trace) /\ l' = l + 1 /\ hist' = <<>>
  /\ LET ev == Trace[l] IN
     IF ev.kind = "records"
     THEN /\ UNCHANGED <<exists, rows, writer, ret, failed, uid, uids, ptags>>
          /\ LET clause == IF ev.exc # "none" THEN "exception_raised"
                           ELSE IF ev.n_records # ev.n_tracts THEN "not_one_record_per_tract"
                           ELSE IF ~ev.order_ok THEN "records_out_of_order"
                           ELSE IF ~ev.keys_ok THEN "record_keys_differ_from_requested_attributes"
                           ELSE IF ~ev.values_ok THEN "record_value_differs_from_attribute"
                           ELSE IF ~ev.unknown_ok THEN "unknown_attribute_not_reported_as_na"
                           ELSE "ok"
             IN IF clause = "ok" THEN TRUE ELSE PrintT(<<"FAIL", ev.tid, clause, 0>>)
     ELSE LET isstart == ev.op.name = "start"
              m == ModelStep(ev.op)
              skip == failed /\ ~isstart
              clause == IF m.ret.kind = "RuntimeError" THEN (IF ev.exc = "RuntimeError" THEN "ok" ELSE "write_on_closed_writer_not_rejected")
                        ELSE IF m.ret.kind = "TypeError" /\ ev.exc = "none" THEN "unacceptable_object_written"
                        ELSE IF m.ret.kind = "TypeError" /\ ev.rows # m.rows THEN "rejected_write_left_rows_in_the_file"
                        ELSE IF m.ret.kind = "TypeError" THEN "ok"
                        ELSE IF ev.exc # "none" THEN "exception_raised"
                        ELSE IF Len(ev.rows) # Len(m.rows) THEN "wrong_number_of_rows"
                        ELSE IF ev.rows # m.rows THEN "rows_differ_from_header_plus_one_row_per_tract"
                        ELSE IF m.ret.kind = "count" /\ ev.ret.n # m.ret.n THEN "write_returned_wrong_count"
                        ELSE IF ev.uids # m.uids THEN "uid_column_differs"
                        ELSE IF ev.ptags # m.ptags THEN "additional_columns_differ"
                        ELSE IF ~ev.cells_ok THEN "cell_differs_from_attribute"
                        ELSE "ok"
          IN IF skip THEN UNCHANGED <<exists, rows, writer, ret, failed, uid, uids, ptags>>
             ELSE /\ (IF clause = "ok" THEN TRUE ELSE PrintT(<<"FAIL", ev.tid, clause, ev.seq>>))
                  /\ failed' = (clause # "ok")
                  /\ rows' = m.rows /\ exists' = m.exists /\ writer' = m.writer /\ ret' = m.ret /\ uid' = m.uid /\ uids' = m.uids /\ ptags' = m.ptags
TraceSpec == TraceInit /\ [][Consume]_tvars
AllConsumed ==
  /\ PrintT(<<"INFO", "consumed", TLCGet("stats").diameter - 1, Len(Trace)>>)
  /\ TLCGet("stats").diameter - 1 = Len(Trace)
=============================================================================
