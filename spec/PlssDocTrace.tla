--------------------------- MODULE PlssDocTrace ---------------------------
(***************************************************************************)
(* Trace validation for C01 and C20.  Record kinds:                        *)
(*  "c01":  {layout, groups: [{tr, secs: [{nums, conns, block}]}],         *)
(*           exc, obs_layout, n_e, tracts: [{tr, sec, block}],             *)
(*           pretty_exc, pretty: [{tr, sec, block}],                       *)
(*           plines: [{k, tr, sec, block}] pretty_desc() line by line}     *)
(*       one rendered document parsed with default settings, and the       *)
(*       library's pretty_desc of the result parsed again.                 *)
(*  "same": {what, a: [int], b: [int], a_exc, b_exc, need_warning,         *)
(*           has_warning, b_errflags}  two parses of one text that must    *)
(*       give the same tracts (a, b = interned (trs, desc) pairs).         *)
(*  "fallback": {what, exc, n, whole}  a parse that must keep the whole    *)
(*       text in one tract.                                                *)
(*  "secwithin": {nums, conns, tr, exc, tracts: [{tr, sec, joined}],       *)
(*           warned: [bool]}                                               *)
(***************************************************************************)
EXTENDS PlssDoc, IOUtils

VARIABLE l
Trace == JsonDeserialize(IOEnv.TRACE_FILE)
tvars == <<vars, l>>

TraceInit == l = 1 /\ layout = "none" /\ groups = <<>> /\ open = FALSE /\ done = FALSE
Consume ==
  /\ l <= Len(Trace)
  /\ l' = l + 1
  /\ LET r == Trace[l] IN
       /\ layout' = IF r.kind = "c01" THEN r.layout ELSE r.kind
       /\ groups' = <<l>>          \* keeps every consumed record a distinct state
       /\ open' = FALSE /\ done' = TRUE
TraceSpec == TraceInit /\ [][Consume]_tvars

Rec == Trace[l - 1]
ClauseC01(r) ==
  IF r.exc # "none" THEN "exception_raised"
  ELSE IF r.obs_layout # r.layout THEN "layout_not_deduced"
  ELSE IF Len(r.tracts) # Len(Denotation(r.groups)) THEN "wrong_number_of_tracts"
  ELSE IF \E j \in 1..Len(r.tracts) : r.tracts[j].tr # Denotation(r.groups)[j].tr
                                      \/ r.tracts[j].sec # Denotation(r.groups)[j].sec THEN "wrong_trs_or_order"
  ELSE IF \E j \in 1..Len(r.tracts) : r.tracts[j].block # Denotation(r.groups)[j].block THEN "block_not_verbatim"
  ELSE IF r.n_e > 0 THEN "error_flag_raised"
  ELSE IF r.pretty_exc # "none" THEN "pretty_desc_reparse_raised"
  ELSE IF r.pretty # Denotation(r.groups) THEN "pretty_desc_roundtrip_differs"
  ELSE "ok"
ClauseSame(r) ==
  IF r.a_exc # "none" \/ r.b_exc # "none" THEN "exception_raised"
  ELSE IF r.a # r.b THEN "tracts_differ"
  ELSE IF r.need_warning /\ ~r.has_warning THEN "missing_warning"
  ELSE "ok"
ClauseFallback(r) ==
  IF r.exc # "none" THEN "exception_raised"
  ELSE IF r.n # 1 \/ ~r.whole THEN "not_one_tract_with_whole_text"
  ELSE "ok"
ClauseSecWithin(r) ==
  LET e == Expand(r.nums, r.conns) IN
  IF r.exc # "none" THEN "exception_raised"
  ELSE IF Len(r.tracts) # Len(e) THEN "wrong_number_of_tracts"
  ELSE IF \E j \in 1..Len(e) : r.tracts[j].tr # r.tr \/ r.tracts[j].sec # e[j] THEN "wrong_trs"
  ELSE IF \E j \in 1..Len(e) : ~r.tracts[j].joined THEN "description_not_leading_plus_trailing"
  ELSE IF \E j \in 1..Len(e) : ~r.warned[j] THEN "missing_sec_within_warning"
  ELSE "ok"
Clause(r) == CASE r.kind = "c01" -> ClauseC01(r)
               [] r.kind = "same" -> ClauseSame(r)
               [] r.kind = "fallback" -> ClauseFallback(r)
               [] r.kind = "secwithin" -> ClauseSecWithin(r)
Verdict == done => (Clause(Rec) = "ok" \/ PrintT(<<"FAIL", Rec.id, Clause(Rec)>>))
\* the model of pretty_desc (header per run of equal Twp/Rge, one section line per tract) against the real text
Drift == done /\ Rec.kind = "c01" /\ Rec.exc = "none" /\ Rec.pretty_exc = "none" =>
           (Rec.plines = PrettyLines(Denotation(Rec.groups)) \/ PrintT(<<"INFO", "drift", Rec.id>>))
AllConsumed ==
  /\ PrintT(<<"INFO", "consumed", TLCGet("stats").diameter - 1, Len(Trace)>>)
  /\ TLCGet("stats").diameter - 1 = Len(Trace)
=============================================================================
