------------------------------- MODULE Config -------------------------------
(***************************************************************************)
(* Configuration of PLSSDesc / Tract objects                               *)
(* (pytrs/parser/config/config.py; plssdesc.py / tract.py: .config setter, *)
(*  __init__ keywords, parse() keywords).                                  *)
(*                                                                         *)
(* Part 1 (codec): a Config holds a partial assignment of the 16 settings; *)
(*   Encode turns it into the comma-separated text, Decode reads text back *)
(*   (decompile_to_text / _text_to_attributes); Decode(Encode(c)) = c.     *)
(* Part 2 (precedence): a scenario gives one setting a value through one   *)
(*   channel (config string at creation, .config assigned before parsing,  *)
(*   keyword of parse(), keyword of __init__, MasterConfig) and possibly a *)
(*   conflicting value through a weaker channel.  The object life-cycle is *)
(*   a small state machine (Create, Assign, Parse); the value that governs *)
(*   the parse is the one from the strongest channel.                      *)
(***************************************************************************)
EXTENDS Naturals, Integers, Sequences, FiniteSets, TLC, Json

CONSTANTS Fault, EmitCases,
          MaxSet       \* codec: how many settings are set at once

Bools == {"wait_to_parse", "parse_qq", "clean_qq", "sec_colon_required", "sec_colon_cautious",
          "suppress_lot_divs", "ocr_scrub", "segment", "break_halves", "sec_within"}
Ints == {"qq_depth", "qq_depth_min", "qq_depth_max"}
Settings == Bools \cup Ints \cup {"default_ns", "default_ew", "layout"}
Order == <<"default_ns", "default_ew", "layout", "wait_to_parse", "parse_qq", "clean_qq", "sec_colon_required",
           "sec_colon_cautious", "suppress_lot_divs", "ocr_scrub", "segment", "qq_depth", "qq_depth_min",
           "qq_depth_max", "break_halves", "sec_within">>
LayoutNames == {"TRS_desc", "desc_STR", "S_desc_TR", "TR_desc_S", "copy_all"}
Unset == "unset"
ValuesOf(s) == IF s \in Bools THEN {"True", "False"}
               ELSE IF s \in Ints THEN {"1", "2", "3"}
               ELSE IF s = "default_ns" THEN {"n", "s"}
               ELSE IF s = "default_ew" THEN {"e", "w"}
               ELSE LayoutNames

\* --- Part 1: codec -------------------------------------------------------
\* a token of config text: [name, val] ; val = "-" when only the name is written
Tok(n, v) == [name |-> n, val |-> v]
EncodeOne(s, v) ==
  IF v = Unset THEN <<>>
  ELSE IF s \in Bools THEN (IF v = "True" THEN <<Tok(s, "-")>> ELSE <<Tok(s, "False")>>)
  ELSE IF s \in {"default_ns", "default_ew"} THEN <<Tok(v, "-")>>          \* just 'n' / 's' / 'e' / 'w'
  ELSE IF s = "layout" /\ Fault = "layout_bare" THEN <<Tok(v, "-")>>
  ELSE <<Tok(s, v)>>                                                       \* 'layout.copy_all', 'qq_depth.2'
RECURSIVE EncodeFrom(_, _)
EncodeFrom(c, k) == IF k > Len(Order) THEN <<>> ELSE EncodeOne(Order[k], c[Order[k]]) \o EncodeFrom(c, k + 1)
Encode(c) == EncodeFrom(c, 1)

Empty == [s \in Settings |-> Unset]
DecodeTok(c, t) ==
  IF t.name \in Bools THEN [c EXCEPT ![t.name] = IF t.val = "-" THEN "True" ELSE t.val]
  ELSE IF t.name \in {"n", "s"} /\ t.val = "-" THEN [c EXCEPT !["default_ns"] = t.name]
  ELSE IF t.name \in {"e", "w"} /\ t.val = "-" THEN [c EXCEPT !["default_ew"] = t.name]
  ELSE IF t.name \in LayoutNames /\ t.val = "-" THEN [c EXCEPT !["layout"] = t.name]
  ELSE IF t.name \in Settings /\ t.val # "-" THEN [c EXCEPT ![t.name] = t.val]
  ELSE c          \* (an unknown name is rejected with ValueError: modelled by Known below)
RECURSIVE DecodeFrom(_, _, _)
DecodeFrom(toks, k, c) == IF k > Len(toks) THEN c ELSE DecodeFrom(toks, k + 1, DecodeTok(c, toks[k]))
Decode(toks) == DecodeFrom(toks, 1, Empty)
Known(t) == t.name \in Settings \cup {"n", "s", "e", "w"} \cup LayoutNames

\* --- Part 2: precedence ------------------------------------------------------
Targets == {"plss", "tract"}
\* channels through which a target accepts a setting
ParseKw(target) == IF target = "plss"
                   THEN {"layout", "default_ns", "default_ew", "parse_qq", "clean_qq", "sec_colon_cautious",
                         "sec_colon_required", "segment", "ocr_scrub", "sec_within", "qq_depth_min", "qq_depth_max",
                         "qq_depth", "break_halves"}
                   ELSE {"clean_qq", "suppress_lot_divs", "qq_depth_min", "qq_depth_max", "qq_depth", "break_halves"}
\* (a Tract uses the default directions when it is built from components: Tract.from_twprgesec(..., default_ns=...))
InitKw(target) == IF target = "plss" THEN {"layout", "parse_qq", "wait_to_parse"} ELSE {"parse_qq", "default_ns", "default_ew"}
ConfigSettings(target) == IF target = "plss" THEN Settings
                          ELSE {"parse_qq", "clean_qq", "suppress_lot_divs", "qq_depth", "qq_depth_min", "qq_depth_max", "break_halves",
                                "default_ns", "default_ew"}
McSettings == {"default_ns", "default_ew"}
\* (a config assigned after creation is later than, and therefore overrides, whatever __init__ set)
Strength(ch) == CASE ch = "parse_kw" -> 5 [] ch = "assign_config" -> 4 [] ch = "init_kw" -> 3
                  [] ch = "init_config" -> 2 [] ch = "mc" -> 1 [] ch = "none" -> 0
\* settings that take effect while the object is created cannot be assigned afterwards
AtCreation(target, s) == s = "wait_to_parse" \/ (target = "tract" /\ s \in {"parse_qq", "default_ns", "default_ew"})
ChannelsFor(target, s) ==
  IF s \notin ConfigSettings(target) THEN {}
  ELSE (IF s \in ParseKw(target) /\ ~AtCreation(target, s) THEN {"parse_kw"} ELSE {})
       \cup (IF s \in InitKw(target) THEN {"init_kw"} ELSE {})
       \cup {"init_config"}
       \cup (IF ~AtCreation(target, s) THEN {"assign_config"} ELSE {})
       \cup (IF s \in McSettings THEN {"mc"} ELSE {})

VARIABLES phase,       \* "start" -> "created" -> ("assigned") -> "parsed"   | "codec"
          scn,         \* [target, s, v, ch, ch2, s2, v2]   (s2 = s except in the related-settings scenarios)
          attr,        \* the object's attribute for setting s after each step
          attr2,       \* ... and for the related setting s2 (related-settings scenarios only)
          used,        \* the value that governed the parse
          used2,       \* the value of the related setting s2 that took part in the parse
          cfg          \* codec: the partial assignment under test
vars == <<phase, scn, attr, attr2, used, used2, cfg>>

NoScn == [target |-> "plss", s |-> "clean_qq", v |-> Unset, ch |-> "none", ch2 |-> "none", s2 |-> "clean_qq", v2 |-> Unset,
          again |-> FALSE]
Init == phase = "start" /\ scn = NoScn /\ attr = Unset /\ attr2 = Unset /\ used = Unset /\ used2 = Unset /\ cfg = Empty

\* the exact depth and the depth bounds speak about the same thing: a keyword for one of them is the caller's whole
\* statement about depth for that call, so the attribute of the other is not consulted (tract.py / plssdesc.py parse())
Related(s, s2) == (s = "qq_depth" /\ s2 \in {"qq_depth_min", "qq_depth_max"}) \/ (s2 = "qq_depth" /\ s \in {"qq_depth_min", "qq_depth_max"})

\* codec branch: choose up to MaxSet settings and values
ChooseCodec == /\ phase = "start"
               /\ \E s1 \in Settings : \E v1 \in ValuesOf(s1) :
                    \/ cfg' = [Empty EXCEPT ![s1] = v1]
                    \/ MaxSet >= 2 /\ \E s2 \in Settings \ {s1} : \E v2 \in ValuesOf(s2) :
                          cfg' = [Empty EXCEPT ![s1] = v1, ![s2] = v2]
               /\ phase' = "codec" /\ UNCHANGED <<scn, attr, attr2, used, used2>>

\* precedence branch
ChooseScenario ==
  /\ phase = "start"
  /\ \E t \in Targets : \E s \in Settings : \E ch \in ChannelsFor(t, s) : \E v \in ValuesOf(s) :
       \E ag \in (IF ch = "parse_kw" THEN BOOLEAN ELSE {FALSE}) :     \* again: a second, keyword-less parse follows
       \/ scn' = [target |-> t, s |-> s, v |-> v, ch |-> ch, ch2 |-> "none", s2 |-> s, v2 |-> Unset, again |-> ag]
       \/ \E ch2 \in ChannelsFor(t, s) : \E v2 \in ValuesOf(s) \ {v} :
            /\ Strength(ch2) < Strength(ch)
            /\ scn' = [target |-> t, s |-> s, v |-> v, ch |-> ch, ch2 |-> ch2, s2 |-> s, v2 |-> v2, again |-> ag]
       \* related settings: a keyword for s, the related setting s2 configured on the object
       \/ /\ ch = "parse_kw" /\ ~ag
          /\ \E s2 \in Settings : \E ch2 \in {"init_config", "assign_config"} : \E v2 \in ValuesOf(s2) :
               /\ Related(s, s2) /\ ch2 \in ChannelsFor(t, s2)
               /\ scn' = [target |-> t, s |-> s, v |-> v, ch |-> ch, ch2 |-> ch2, s2 |-> s2, v2 |-> v2, again |-> ag]
  /\ phase' = "chosen" /\ UNCHANGED <<attr, attr2, used, used2, cfg>>
Cross == scn.s2 # scn.s
ValIn(ch) == IF scn.ch = ch THEN scn.v ELSE IF scn.ch2 = ch /\ ~Cross THEN scn.v2 ELSE Unset
ValIn2(ch) == IF scn.ch2 = ch /\ Cross THEN scn.v2 ELSE Unset
\* __init__: config string applied first, then the init keyword
Create == /\ phase = "chosen"
          /\ attr' = (IF ValIn("init_kw") # Unset THEN ValIn("init_kw") ELSE ValIn("init_config"))
          /\ attr2' = ValIn2("init_config")
          /\ phase' = "created" /\ UNCHANGED <<scn, used, used2, cfg>>
\* .config = text: only settings named in the text are overwritten
Assign == /\ phase = "created"
          /\ attr' = (IF ValIn("assign_config") # Unset /\ Fault # "assign_ignored" THEN ValIn("assign_config") ELSE attr)
          /\ attr2' = (IF ValIn2("assign_config") # Unset THEN ValIn2("assign_config") ELSE attr2)
          /\ phase' = "assigned" /\ UNCHANGED <<scn, used, used2, cfg>>
\* parse(): keyword, else attribute, else MasterConfig (directions only), else the built-in default
Parse == /\ phase = "assigned"
         /\ used' = (IF ValIn("parse_kw") # Unset /\ Fault # "kw_loses" THEN ValIn("parse_kw")
                     ELSE IF attr # Unset THEN attr
                     ELSE IF ValIn("mc") # Unset THEN ValIn("mc") ELSE Unset)
         /\ used2' = (IF Cross /\ ValIn("parse_kw") # Unset /\ Fault # "related_attr_wins" THEN Unset ELSE attr2)
         /\ phase' = "parsed" /\ UNCHANGED <<scn, attr, attr2, cfg>>
\* a keyword of one parse() call does not outlive that call
ParseAgain == /\ phase = "parsed" /\ scn.again
              /\ used' = (IF Fault = "kw_sticks" THEN used ELSE IF attr # Unset THEN attr ELSE ValIn("mc"))
              /\ phase' = "parsed2" /\ UNCHANGED <<scn, attr, attr2, used2, cfg>>
Next == ChooseCodec \/ ChooseScenario \/ Create \/ Assign \/ Parse \/ ParseAgain
Spec == Init /\ [][Next]_vars

RoundTrip == phase = "codec" => Decode(Encode(cfg)) = cfg /\ \A k \in 1..Len(Encode(cfg)) : Known(Encode(cfg)[k])
StrongestWins == phase = "parsed" => used = scn.v
\* ... and a keyword silences the configured related setting
KeywordSilencesRelated == phase = "parsed" /\ Cross => used2 = Unset
KeywordDoesNotStick == phase = "parsed2" => used = (IF scn.ch2 = "none" THEN Unset ELSE scn.v2)
Final == (phase = "parsed" /\ ~scn.again) \/ phase = "parsed2"
\* the reference scenario: the governing value given through the config string at creation
Reference == IF used = Unset THEN [scn EXCEPT !.ch = "none", !.ch2 = "none", !.s2 = scn.s, !.v2 = Unset, !.v = Unset, !.again = FALSE]
             ELSE [scn EXCEPT !.ch = "init_config", !.ch2 = "none", !.s2 = scn.s, !.v2 = Unset, !.v = used, !.again = FALSE]

EmitCodec == (EmitCases /\ phase = "codec") => PrintT(<<"CASE", ToJson([kind |-> "codec", cfg |-> cfg, tokens |-> Encode(cfg)])>>)
EmitScn == (EmitCases /\ Final) => PrintT(<<"CASE", ToJson([kind |-> "scenario", scn |-> scn, used |-> used, ref |-> Reference])>>)
=============================================================================
