----------------------------- MODULE Lifecycle -----------------------------
(***************************************************************************)
(* Life-cycle of one PLSSDesc or Tract object under sequences of API calls *)
(* (parse(commit, keywords), parse_tracts, preprocess(commit), .config     *)
(* assignment, sort_tracts, filter(drop)) - property C14.                  *)
(*                                                                         *)
(* The object's observable state is represented symbolically: which        *)
(* settings its attributes hold (A), the effective settings of the last    *)
(* COMMITTED parse (res), of the last committed preprocess (pp), and for   *)
(* a PLSSDesc how its tracts were last parsed (tq) and whether they have   *)
(* been sorted / filtered since.  The spec never computes a parse: it      *)
(* names it by its effective settings.  Two objects in the same symbolic   *)
(* state must be observationally equal - that is what the trace            *)
(* specification checks against snapshots of real objects, including       *)
(* freshly constructed ones.                                               *)
(***************************************************************************)
EXTENDS Naturals, Integers, Sequences, FiniteSets, TLC, Json

CONSTANTS MaxOps, Kinds, Fault, EmitCases

NA == "-"
B == {"T", "F"}                \* booleans are written "T" / "F" so that "-" (not given) is comparable with them
Ov(a, k) == IF k = NA THEN a ELSE k
\* ---- Tract --------------------------------------------------------------
TA == [clean : B, depth : {1, 2}]                        \* attribute settings (clean_qq, qq_depth)
TKw == [clean : {NA, "T", "F"}, depth : {0, 1, 2}]       \* parse keywords ("-" / 0 = not given)
TKwUsed == {k \in TKw : k.depth # 1 \/ k.clean # "F"}    \* (fewer instances keep the behaviours few)
TEff(a, k) == [clean |-> Ov(a.clean, k.clean), depth |-> IF k.depth = 0 THEN a.depth ELSE k.depth]
TNone == [clean |-> NA, depth |-> 0]                     \* "no committed parse yet" / "no config given"
\* ---- PLSSDesc ------------------------------------------------------------
PA == [cautious : B, pq : B, clean : B, ns : {"n", "s"}]
PAUsed == {[cautious |-> "F", pq |-> "F", clean |-> "F", ns |-> "n"],
           [cautious |-> "T", pq |-> "T", clean |-> "F", ns |-> "n"],
           [cautious |-> "F", pq |-> "T", clean |-> "T", ns |-> "s"]}
PNone == [cautious |-> NA, pq |-> NA, clean |-> NA, ns |-> NA, lay |-> NA, ocr |-> NA]
\* (lay: the layout keyword of parse(); a committed parse with it must not bind later parses.
\*  ocr: the ocr_scrub keyword - the text holds a Twp/Rge only the OCR pattern reads, so the keyword matters for that
\*  call, and for that call only)
PKwUsed == {PNone,
            [PNone EXCEPT !.cautious = "T"],
            [PNone EXCEPT !.cautious = "F", !.pq = "T"],
            [PNone EXCEPT !.pq = "T", !.clean = "T", !.ns = "s"],
            [PNone EXCEPT !.pq = "F"],
            [PNone EXCEPT !.lay = "copy_all"],
            [PNone EXCEPT !.lay = "TR_desc_S", !.pq = "T"],
            [PNone EXCEPT !.ocr = "T"]}
PEff(a, k) == [cautious |-> Ov(a.cautious, k.cautious), pq |-> Ov(a.pq, k.pq), clean |-> Ov(a.clean, k.clean),
               ns |-> Ov(a.ns, k.ns)]

\* ---- operations -----------------------------------------------------------
Op(name, commit, kw, cfg) == [name |-> name, commit |-> commit, kw |-> kw, cfg |-> cfg]
TractOps == {Op("parse", c, k, TNone) : c \in BOOLEAN, k \in TKwUsed}
            \cup {Op("preprocess", c, [clean |-> x, depth |-> 0], TNone) : c \in BOOLEAN, x \in {NA, "T", "F"}}
            \cup {Op("config", TRUE, TNone, a) : a \in TA}
PlssOps == {Op("parse", c, k, PNone) : c \in BOOLEAN, k \in PKwUsed}
           \* parse_tracts(config=..., clean_qq=...): the config argument (here: 'break_halves', carried in the lay slot)
           \* re-configures the tracts for good, the keyword holds for this call only
           \cup {Op("parse_tracts", TRUE, [PNone EXCEPT !.clean = x], [PNone EXCEPT !.lay = c]) : x \in {NA, "T", "F"}, c \in {NA, "bh"}}
           \cup {Op("preprocess", c, [PNone EXCEPT !.ns = x], PNone) : c \in BOOLEAN, x \in {NA, "s"}}
           \cup {Op("config", TRUE, PNone, a) : a \in PAUsed}
           \cup {Op("sort", TRUE, PNone, PNone), Op("filter", TRUE, PNone, PNone), Op("filter", FALSE, PNone, PNone)}

\* ---- symbolic state and its evolution ------------------------------------------
\* Tract:    [A, res, pp]         res = effective settings of the last committed parse (TNone before)
\* PLSSDesc: [A, res, pp, tq, ord, drop]
\* (res names the committed parse by the attributes and keywords it ran with; whether two different
\*  channels with equal effective settings agree is property C13's business, not C14's)
TractNew(a) == [A |-> a, res |-> [a |-> TNone, k |-> TNone], pp |-> a.clean]
TractApply(s, op) ==
  CASE op.name = "parse" ->
         IF ~op.commit THEN s
         ELSE [s EXCEPT !.res = [a |-> s.A, k |-> op.kw], !.pp = TEff(s.A, op.kw).clean]
    [] op.name = "preprocess" ->
         IF ~op.commit /\ Fault # "preprocess_always_commits" THEN s
         ELSE [s EXCEPT !.pp = Ov(s.A.clean, op.kw.clean)]
    [] op.name = "config" -> [s EXCEPT !.A = op.cfg]
\* what a committed PLSSDesc parse leaves behind
\* tq: how the tracts were last parsed: "unparsed", "own" (with their own settings: at creation when
\* parse_qq is in force, or by parse_tracts() without keyword), or the clean_qq keyword of parse_tracts
\* pp: what the committed preprocessed text was made with (default N/S; whether the OCR scrubber ran - a committed
\* preprocess() without that keyword re-reads the text without it)
PlssParsed(a, k) == [A |-> a, res |-> [a |-> a, k |-> k], pp |-> [ns |-> PEff(a, k).ns, ocr |-> k.ocr],
                     tq |-> IF PEff(a, k).pq = "T" THEN "own" ELSE "unparsed", ord |-> "orig", drop |-> "F",
                     \* tc: what parse_tracts(config=...) has written into the tracts' own settings
                     tc |-> [bh |-> NA, clean |-> NA]]
PlssNew(a) == PlssParsed(a, PNone)                  \* __init__ parses with the attributes alone
PlssApply(s, op) ==
  CASE op.name = "parse" ->
         IF ~op.commit THEN s
         ELSE IF Fault = "commit_keeps_order" THEN [PlssParsed(s.A, op.kw) EXCEPT !.ord = s.ord]
         ELSE PlssParsed(s.A, op.kw)
    [] op.name = "parse_tracts" -> [s EXCEPT !.tq = IF op.kw.clean = NA THEN "own" ELSE op.kw.clean,
                                             !.tc = [bh |-> IF op.cfg.lay # NA THEN "T" ELSE s.tc.bh,
                                                     clean |-> IF Fault = "kw_written_to_tracts" /\ op.cfg.lay # NA /\ op.kw.clean # NA
                                                               THEN op.kw.clean ELSE s.tc.clean]]
    [] op.name = "preprocess" -> IF ~op.commit THEN s ELSE [s EXCEPT !.pp = [ns |-> Ov(s.A.ns, op.kw.ns), ocr |-> NA]]
    [] op.name = "config" -> [s EXCEPT !.A = op.cfg]
    [] op.name = "sort" -> [s EXCEPT !.ord = "sorted"]
    [] op.name = "filter" -> IF op.commit THEN [s EXCEPT !.drop = "T"] ELSE s
Apply(kind, s, op) == IF kind = "tract" THEN TractApply(s, op) ELSE PlssApply(s, op)
New(kind, a) == IF kind = "tract" THEN TractNew(a) ELSE PlssNew(a)
Ops(kind) == IF kind = "tract" THEN TractOps ELSE PlssOps
\* the value a parse / preprocess call returns, symbolically (a record per kind)
Returns(kind, s, op) ==
  IF kind = "tract"
  THEN (IF op.name = "parse" THEN [what |-> "parse", a |-> s.A, k |-> op.kw]
        ELSE IF op.name = "preprocess" THEN [what |-> "pp", a |-> TNone, k |-> [clean |-> Ov(s.A.clean, op.kw.clean), depth |-> 0]]
        ELSE [what |-> "none", a |-> TNone, k |-> TNone])
  ELSE (IF op.name = "parse" THEN [what |-> "parse", a |-> s.A, k |-> op.kw]
        ELSE IF op.name = "preprocess" THEN [what |-> "pp", a |-> PNone, k |-> [PNone EXCEPT !.ns = Ov(s.A.ns, op.kw.ns)]]
        ELSE [what |-> "none", a |-> PNone, k |-> PNone])

---------------------------------------------------------------------------
VARIABLES kind, sym, hist
vars == <<kind, sym, hist>>
Init == /\ kind \in Kinds
        /\ \E a \in (IF kind = "tract" THEN TA ELSE PAUsed) : sym = New(kind, a) /\ hist = <<Op("new", TRUE, IF kind = "tract" THEN TNone ELSE PNone, a)>>
Do == /\ Len(hist) <= MaxOps
      /\ \E op \in Ops(kind) : sym' = Apply(kind, sym, op) /\ hist' = Append(hist, op)
      /\ UNCHANGED kind
Spec == Init /\ [][Do]_vars

\* ---- the properties -------------------------------------------------------------
LastOp == hist[Len(hist)]
CommitFalseChangesNothing == [][ \A op \in Ops(kind) : (hist' = Append(hist, op) /\ ~op.commit /\ op.name # "filter") => sym' = sym ]_vars
\* re-applying the last committing operation changes nothing (idempotence)
Idempotent == Len(hist) > 1 => Apply(kind, sym, LastOp) = sym
\* a committed parse replaces: the result does not depend on what was there before
Replaces == Len(hist) > 1 /\ LastOp.name = "parse" /\ LastOp.commit =>
              IF kind = "tract" THEN sym.res = [a |-> sym.A, k |-> LastOp.kw] /\ sym.pp = TEff(sym.A, LastOp.kw).clean
              ELSE sym = PlssParsed(sym.A, LastOp.kw)
\* ... and therefore equals what a fresh object with the final settings gives
FreshEquivalent == Len(hist) > 1 /\ LastOp.name = "parse" /\ LastOp.commit =>
              Apply(kind, New(kind, sym.A), LastOp) = sym

\* a keyword of parse_tracts() is for that call: it is not written into the tracts' own settings
KeywordOfParseTractsDoesNotStick == kind = "plss" => sym.tc.clean = NA

EmitCase == (EmitCases /\ Len(hist) = MaxOps + 1) => PrintT(<<"CASE", ToJson([kind |-> kind, ops |-> hist])>>)
=============================================================================
