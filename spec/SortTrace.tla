----------------------------- MODULE SortTrace -----------------------------
(***************************************************************************)
(* Trace validation for C17.  One record per observed custom_sort /        *)
(* sort_tracts call on real Tract / TRS objects:                           *)
(*  {"id", "elems": [{twp:{k,n,d}, rge:{k,n,d}, sec:{k,n,d}, uid, pos}],   *)
(*   "keys": [{var, method, rev}], "legal": bool,                          *)
(*   "out": [pos, ...]  positions (in the input list) of the elements in   *)
(*                      the order found after the call,                    *)
(*   "exc": "none" | exception class}                                      *)
(***************************************************************************)
EXTENDS SortSpec, IOUtils

VARIABLE l
Trace == JsonDeserialize(IOEnv.TRACE_FILE)
tvars == <<vars, l>>

TraceInit == l = 1 /\ lst = <<>> /\ keys = <<>> /\ p = 0 /\ cur = <<>>
Consume ==
  /\ l <= Len(Trace)
  /\ l' = l + 1
  /\ LET r == Trace[l] IN
       /\ lst' = r.elems
       /\ keys' = r.keys
       /\ cur' = r.out
       /\ p' = l + 1000000     \* distinct per record; marks "observed"
TraceSpec == TraceInit /\ [][Consume]_tvars

Rec == Trace[l - 1]
PosSeq(s) == [j \in 1..Len(s) |-> s[j].pos]
IsPerm(out, n) == Len(out) = n /\ \A j \in 1..n : \E m \in 1..n : out[m] = j
Clause(r) ==
  IF ~r.legal THEN (IF r.exc = "ValueError" THEN "ok" ELSE "illegal_key_not_rejected")
  ELSE IF r.exc # "none" THEN "exception_raised"
  ELSE IF ~IsPerm(r.out, Len(r.elems)) THEN "not_a_permutation"
  ELSE IF r.out # PosSeq(Sort(r.elems, r.keys)) THEN "order_differs_from_stable_multikey_sort"
  ELSE "ok"
Verdict == p >= 1000000 => (Clause(Rec) = "ok" \/ PrintT(<<"FAIL", Rec.id, Clause(Rec)>>))
\* the integer-key model of the code must agree as well
RECURSIVE ArithSort(_, _, _, _)
ArithSort(s, ks, j, orig) == IF j > Len(ks) THEN s ELSE ArithSort(ArithPass(s, ks[j], orig), ks, j + 1, orig)
Drift == p >= 1000000 =>
           \/ ~Rec.legal \/ Rec.exc # "none"
           \/ Rec.out = PosSeq(ArithSort(Rec.elems, Rec.keys, 1, Rec.elems))
           \/ PrintT(<<"INFO", "drift", Rec.id>>)
AllConsumed ==
  /\ PrintT(<<"INFO", "consumed", TLCGet("stats").diameter - 1, Len(Trace)>>)
  /\ TLCGet("stats").diameter - 1 = Len(Trace)
=============================================================================
