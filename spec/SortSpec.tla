------------------------------ MODULE SortSpec ------------------------------
(***************************************************************************)
(* custom_sort / sort_tracts of pyTRS                                      *)
(* (pytrs/parser/containers/containers.py :: _sort_custom).                *)
(*                                                                         *)
(* An element is [twp, rge, sec, uid] with twp/rge = [k, n, d] (k = "num", *)
(* "err" or "undef"), sec = [k, n].  A key is [var, method, rev].          *)
(* Denotation: Before(a, b, key) is the order the documentation states     *)
(* (creation order / number / north-to-south ... with error and undefined  *)
(* components after all valid ones); one pass is the stable sort by it     *)
(* (reversed: descending, ties in original order); keys are applied left   *)
(* to right.                                                               *)
(* Implementation-shaped part: the integer the code computes per element   *)
(* (north negative, max + 1 for missing numbers, sign flips when           *)
(* reversed), checked to induce exactly the denotational order.            *)
(***************************************************************************)
EXTENDS Naturals, Integers, Sequences, FiniteSets, TLC, Json

CONSTANTS MaxLen,        \* list length bound
          MaxKeys,       \* number of keys bound
          TwpShapes, RgeShapes, SecShapes,   \* component domains
          Fault, EmitCases

Vars == {"i", "t", "r", "s"}
LegalMethods(v) == CASE v = "i" -> {"num"} [] v = "t" -> {"num", "ns", "sn"}
                     [] v = "r" -> {"num", "ew", "we"} [] v = "s" -> {"num"}
LegalKeys == {[var |-> v, method |-> m, rev |-> r] : v \in Vars, m \in {"num", "ns", "sn", "ew", "we"}, r \in BOOLEAN}
               \cap {k \in [var : Vars, method : {"num", "ns", "sn", "ew", "we"}, rev : BOOLEAN] : k.method \in LegalMethods(k.var)}
IsLegal(k) == k.var \in Vars /\ k.method \in LegalMethods(k.var)

Valid(c) == c.k = "num"
Comp(e, v) == CASE v = "t" -> e.twp [] v = "r" -> e.rge [] v = "s" -> e.sec [] v = "i" -> [k |-> "num", n |-> e.uid, d |-> "-"]

\* --- denotation: strict order "a comes before b" for one (unreversed) key --
ValBefore(a, b, key) ==       \* both valid
  CASE key.method = "num" -> a.n < b.n
    [] key.method = "ns" -> \/ a.d = "n" /\ b.d = "s"
                            \/ a.d = "n" /\ b.d = "n" /\ a.n > b.n
                            \/ a.d = "s" /\ b.d = "s" /\ a.n < b.n
    [] key.method = "sn" -> \/ a.d = "s" /\ b.d = "n"
                            \/ a.d = "s" /\ b.d = "s" /\ a.n > b.n
                            \/ a.d = "n" /\ b.d = "n" /\ a.n < b.n
    [] key.method = "we" -> \/ a.d = "w" /\ b.d = "e"
                            \/ a.d = "w" /\ b.d = "w" /\ a.n > b.n
                            \/ a.d = "e" /\ b.d = "e" /\ a.n < b.n
    [] key.method = "ew" -> \/ a.d = "e" /\ b.d = "w"
                            \/ a.d = "e" /\ b.d = "e" /\ a.n > b.n
                            \/ a.d = "w" /\ b.d = "w" /\ a.n < b.n
Before(ea, eb, key) ==
  LET a == Comp(ea, key.var)  b == Comp(eb, key.var)
  IN IF Valid(a) /\ Valid(b) THEN ValBefore(a, b, key)
     ELSE Valid(a) /\ ~Valid(b)          \* valid ones first; invalid ones tie

\* stable sort of a sequence of elements by a strict weak order Lt(_,_)
StableSort(s, Lt(_, _)) ==
  LET n == Len(s)
      Rank(j) == Cardinality({m \in 1..n : Lt(s[m], s[j]) \/ (~Lt(s[j], s[m]) /\ m < j)}) + 1
  IN [p \in 1..n |-> s[CHOOSE j \in 1..n : Rank(j) = p]]
Pass(s, key) ==
  IF key.rev THEN StableSort(s, LAMBDA x, y : Before(y, x, key))
             ELSE StableSort(s, LAMBDA x, y : Before(x, y, key))
RECURSIVE SortBy(_, _, _)
SortBy(s, keys, j) == IF j > Len(keys) THEN s ELSE SortBy(Pass(s, keys[j]), keys, j + 1)
Sort(s, keys) == SortBy(s, keys, 1)

\* --- implementation-shaped: the integer key of _sort_custom -------------
MaxOf(S) == IF S = {} THEN 0 ELSE CHOOSE x \in S : \A y \in S : y <= x
DefaultNum(lst, v) ==
  IF Fault = "max_of_fully_valid"
  THEN MaxOf({Comp(lst[j], v).n : j \in {m \in 1..Len(lst) : Valid(lst[m].twp) /\ Valid(lst[m].rge) /\ Valid(lst[m].sec)}}) + 1
  ELSE MaxOf({Comp(lst[j], v).n : j \in {m \in 1..Len(lst) : Valid(Comp(lst[m], v))}}) + 1
Arith(e, key, lst) ==
  LET c == Comp(e, key.var)
      num == IF Valid(c) THEN c.n ELSE DefaultNum(lst, key.var)
      flip == key.method \in {"sn", "ew"}
      m0 == IF key.method = "num" THEN 1
            ELSE IF ~Valid(c) THEN 1
            ELSE IF c.d \in {"s", "e"} THEN 1 ELSE -1
      m1 == IF key.method # "num" /\ flip /\ Valid(c) THEN -m0 ELSE m0
  IN m1 * num
ArithPass(s, key, lst) ==
  IF key.rev THEN StableSort(s, LAMBDA x, y : Arith(y, key, lst) < Arith(x, key, lst))
             ELSE StableSort(s, LAMBDA x, y : Arith(x, key, lst) < Arith(y, key, lst))

---------------------------------------------------------------------------
VARIABLES lst,     \* the list as given (elements carry their creation uid)
          keys, p, cur
vars == <<lst, keys, p, cur>>

\* component shapes are named in the cfg ("2n", "1e", "X" = error, "U" = undefined)
NumOf(x) == CASE x \in {"1n", "1s", "1e", "1w", "1"} -> 1 [] x \in {"2n", "2s", "2e", "2w", "2"} -> 2
              [] x \in {"3n", "3s", "3e", "3w", "3"} -> 3 [] OTHER -> 0
DirOf(x) == CASE x \in {"1n", "2n", "3n"} -> "n" [] x \in {"1s", "2s", "3s"} -> "s"
              [] x \in {"1e", "2e", "3e"} -> "e" [] x \in {"1w", "2w", "3w"} -> "w" [] OTHER -> "-"
Shape(x) == IF x = "X" THEN [k |-> "err", n |-> 0, d |-> "-"]
            ELSE IF x = "U" THEN [k |-> "undef", n |-> 0, d |-> "-"]
            ELSE [k |-> "num", n |-> NumOf(x), d |-> DirOf(x)]
Elems(n) == [1..n -> [twp : {Shape(x) : x \in TwpShapes}, rge : {Shape(x) : x \in RgeShapes},
                      sec : {Shape(x) : x \in SecShapes}]]
Perms(n) == {f \in [1..n -> 1..n] : \A a, b \in 1..n : a # b => f[a] # f[b]}
MkList(es, pm) == [j \in 1..Len(es) |-> [twp |-> es[j].twp, rge |-> es[j].rge, sec |-> es[j].sec, uid |-> pm[j]]]

\* (the sets are enumerated natively by TLC; a set comprehension over all lists is far slower)
Init == /\ \E m \in 1..MaxKeys : keys \in [1..m -> LegalKeys]
        /\ lst = <<>> /\ p = 0 /\ cur = <<>>
\* choosing the list is an action so that TLC's workers share the enumeration
ChooseList == /\ p = 0
              /\ \E n \in 1..MaxLen : \E es \in Elems(n) : \E pm \in Perms(n) : lst' = MkList(es, pm)
              /\ cur' = lst' /\ p' = 1 /\ UNCHANGED keys
DoPass == /\ p >= 1 /\ p <= Len(keys)
          /\ cur' = ArithPass(cur, keys[p], lst)
          /\ p' = p + 1
          /\ UNCHANGED <<lst, keys>>
Next == ChooseList \/ DoPass
Spec == Init /\ [][Next]_vars

Done == p > Len(keys)
IsPermutation == \A j \in 1..Len(lst) : Cardinality({m \in 1..Len(cur) : cur[m] = lst[j]}) = Cardinality({m \in 1..Len(lst) : lst[m] = lst[j]})
EqualsDenotation == Done => cur = Sort(lst, keys)
\* the integer trick induces exactly the documented order (pairwise)
ArithMatchesOrder == p = 1 =>
  \A k \in {keys[j] : j \in 1..Len(keys)} : \A a, b \in 1..Len(lst) :
     (Arith(lst[a], k, lst) < Arith(lst[b], k, lst)) <=> Before(lst[a], lst[b], k)
ErrorsLast == Done => LET k == keys[Len(keys)] IN
     \A a, b \in 1..Len(cur) : a < b =>
        IF k.rev THEN ~(Valid(Comp(cur[a], k.var)) /\ ~Valid(Comp(cur[b], k.var)))
        ELSE ~(~Valid(Comp(cur[a], k.var)) /\ Valid(Comp(cur[b], k.var)))

CaseRecord == [elems |-> lst, keys |-> keys, expect |-> [j \in 1..Len(cur) |-> cur[j].uid]]
EmitCase == (EmitCases /\ Done) => PrintT(<<"CASE", ToJson(CaseRecord)>>)
=============================================================================
