------------------------------- MODULE Export -------------------------------
(***************************************************************************)
(* Bulk export of tract data (property C19): tracts_to_dict / _list and    *)
(* their iterator forms, tracts_to_csv and TractWriter                     *)
(* (pytrs/parser/containers/containers.py, pytrs/tractwriter).             *)
(*                                                                         *)
(* The file is modelled as the sequence of rows it holds: "H" (a header    *)
(* row) or <<d, i>> (tract i of description d).  Operations:               *)
(*   Csv(mode, d)     tracts_to_csv of description d                        *)
(*   WInit(mode, uid, plus)  construct a TractWriter (decides about the    *)
(*                    header; uid counter; additional columns or not)      *)
(*   WWrite(d, p)     TractWriter.write(description d | None, plus_cols =  *)
(*                    value set p | not given)                             *)
(*   WClose, WOpen    close / re-open (append)                             *)
(* A history of operations determines the rows of the file and what each   *)
(* call returns or raises.                                                 *)
(***************************************************************************)
EXTENDS Naturals, Integers, Sequences, FiniteSets, TLC, Json

CONSTANTS MaxOps, Fault, EmitCases

Descs == {1, 2}
NTracts(d) == IF d = 1 THEN 3 ELSE 1          \* description 1 has three tracts, description 2 has one
H == <<0, 0>>
Rows(d) == [i \in 1..NTracts(d) |-> <<d, i>>]
Modes == {"w", "a"}
Op(name, mode, d, p) == [name |-> name, mode |-> mode, d |-> d, p |-> p]
PlusTags == {0, 1, 2}                          \* 0: no additional cells; 1, 2: the two value sets a caller passes

VARIABLES exists, rows, writer, ret, hist,
          uid,      \* the writer's UID counter (-1: no UIDs requested)
          uids,     \* per row of the file: <<number, index, total>> of its UID, <<0, 0, 0>> for rows without one
          ptags     \* per row of the file: which additional cells it carries (0 none; a header row: 0 / 9 = plus headers)
\* writer: "none" | "open" | "closed"
vars == <<exists, rows, writer, ret, hist, uid, uids, ptags>>
PH == 9                                        \* tag of a header row that names the additional columns
Zeros(n) == [i \in 1..n |-> 0]
NoUid == <<0, 0, 0>>
\* UIDs of the rows one write() call adds: '0027.a-d' = <<27, 1, 4>>, '0027.b-d' = <<27, 2, 4>>, ...
UidRows(u, d) == [i \in 1..NTracts(d) |-> IF u < 0 THEN NoUid ELSE <<u, i, NTracts(d)>>]
Blank(n) == [i \in 1..n |-> NoUid]
Init == /\ exists \in BOOLEAN
        /\ rows = IF exists THEN <<H, <<2, 1>>>> ELSE <<>>
        /\ writer = "none" /\ ret = [kind |-> "none", n |-> 0] /\ uid = -1
        /\ uids = IF exists THEN Blank(2) ELSE <<>>
        /\ ptags = IF exists THEN Zeros(2) ELSE <<>>
        /\ hist = <<Op("start", IF exists THEN "exists" ELSE "absent", 0, 0)>>
Step(op) == Len(hist) <= MaxOps /\ hist' = Append(hist, op)
None == [kind |-> "none", n |-> 0]

Csv == \E m \in Modes : \E d \in Descs :
         /\ writer # "open"
         /\ rows' = (IF m = "w" THEN <<H>> \o Rows(d)
                     ELSE IF exists /\ Fault # "append_always_header" THEN rows \o Rows(d)
                     ELSE rows \o <<H>> \o Rows(d))
         /\ uids' = (IF m = "w" THEN Blank(Len(rows')) ELSE uids \o Blank(Len(rows') - Len(rows)))
         /\ ptags' = (IF m = "w" THEN Zeros(Len(rows')) ELSE ptags \o Zeros(Len(rows') - Len(rows)))
         /\ exists' = TRUE /\ ret' = None /\ Step(Op("csv", m, d, 0)) /\ UNCHANGED <<writer, uid>>
WInit == \E m \in Modes : \E u \in {-1, 27} : \E pl \in {0, 1} :       \* pl = 1: plus_cols=[two headers]
           /\ writer = "none"
           /\ rows' = (IF m = "w" THEN <<H>>
                       ELSE IF exists /\ Fault # "header_after_open" THEN rows
                       ELSE IF exists THEN rows       \* (fault: decision taken after the file was created)
                       ELSE IF Fault = "header_after_open" THEN <<>> ELSE <<H>>)
           /\ uids' = (IF m = "w" \/ ~exists THEN Blank(Len(rows')) ELSE uids)
           /\ ptags' = (IF m = "w" \/ ~exists THEN [i \in 1..Len(rows') |-> IF pl = 1 THEN PH ELSE 0] ELSE ptags)
           /\ uid' = u
           /\ exists' = TRUE /\ writer' = "open" /\ ret' = None /\ Step(Op("winit", m, IF u < 0 THEN 0 ELSE u, pl))
WWrite == \E d \in Descs \cup {0} : \E pt \in PlusTags :         \* d = 0: None
            /\ writer \in {"open", "closed"}
            /\ IF writer = "closed"
               THEN /\ ret' = [kind |-> "RuntimeError", n |-> 0] /\ UNCHANGED <<rows, uid, uids, ptags>>
               ELSE /\ rows' = IF d = 0 THEN rows ELSE rows \o Rows(d)
                    /\ uids' = IF d = 0 THEN uids ELSE uids \o UidRows(uid, d)
                    \* the same additional cells on every row of the call (Fault: only on its first row)
                    /\ ptags' = IF d = 0 THEN ptags
                                ELSE ptags \o [i \in 1..NTracts(d) |-> IF Fault = "plus_first_row_only" /\ i > 1 THEN 0 ELSE pt]
                    /\ uid' = IF uid < 0 THEN uid ELSE IF Fault = "uid_not_advanced" THEN uid ELSE uid + 1
                    /\ ret' = [kind |-> "count", n |-> IF d = 0 THEN 0 ELSE NTracts(d)]
            /\ Step(Op("wwrite", "-", d, pt)) /\ UNCHANGED <<exists, writer>>
\* write([description d, <an object that is neither a description nor a tract>]): rejected with TypeError before any
\* row is written - the whole argument is unpacked and type-checked first (Fault: the valid part is written already)
WWriteBad == \E d \in Descs :
               /\ writer = "open"
               /\ ret' = [kind |-> "TypeError", n |-> 0]
               /\ rows' = IF Fault = "bad_write_partial" THEN rows \o Rows(d) ELSE rows
               /\ uids' = IF Fault = "bad_write_partial" THEN uids \o UidRows(uid, d) ELSE uids
               /\ ptags' = IF Fault = "bad_write_partial" THEN ptags \o Zeros(NTracts(d)) ELSE ptags
               /\ Step(Op("wwrite_bad", "-", d, 0)) /\ UNCHANGED <<exists, writer, uid>>
WClose == writer = "open" /\ writer' = "closed" /\ ret' = None /\ Step(Op("wclose", "-", 0, 0)) /\ UNCHANGED <<exists, rows, uid, uids, ptags>>
WOpen == writer = "closed" /\ writer' = "open" /\ ret' = None /\ Step(Op("wopen", "-", 0, 0)) /\ UNCHANGED <<exists, rows, uid, uids, ptags>>
Next == Csv \/ WInit \/ WWrite \/ WWriteBad \/ WClose \/ WOpen
Spec == Init /\ [][Next]_vars

\* ---- properties ----------------------------------------------------------------
IsTractRow(r) == r # H
\* a header row only ever starts a file or (legacy content aside) follows nothing it should not:
\* every header is either the first row, or was written by an append of tracts_to_csv to... never.
HeaderOnlyFirst == \A i \in 2..Len(rows) : rows[i] # H
\* a file that exists and was produced by these operations starts with a header
StartsWithHeader == (exists /\ Len(rows) > 0) => rows[1] = H
\* rows of one call are the tracts of its description in order, contiguous
LastCallRows ==
  LET op == hist[Len(hist)] IN
  (Len(hist) > 1 /\ op.name \in {"csv", "wwrite"} /\ op.d # 0 /\ ret.kind # "RuntimeError") =>
     /\ Len(rows) >= NTracts(op.d)
     /\ SubSeq(rows, Len(rows) - NTracts(op.d) + 1, Len(rows)) = Rows(op.d)
\* closing and re-opening never loses or adds rows
ReopenKeepsRows == [][ (hist' # hist /\ hist'[Len(hist')].name \in {"wclose", "wopen"}) => rows' = rows ]_vars

\* a rejected call leaves the file as it was
RejectedWriteChangesNothing == [][ret'.kind \in {"TypeError", "RuntimeError"} => rows' = rows /\ uid' = uid]_vars

\* UIDs: one number per write() call (also for write(None)), indexes 1..total within the call, never reused
UidsParallel == Len(uids) = Len(rows)
UidNumbersDistinctPerCall ==
  \A a, b \in 1..Len(uids) : (a < b /\ uids[a] # NoUid /\ uids[b] # NoUid /\ uids[a][1] = uids[b][1])
                               => (uids[a][3] = uids[b][3] /\ uids[a][2] < uids[b][2])

\* additional cells: one tag per row, and all rows of one write() call carry the cells that call was given
PtagsParallel == Len(ptags) = Len(rows)
LastCallPlus ==
  LET op == hist[Len(hist)] IN
  (Len(hist) > 1 /\ op.name = "wwrite" /\ op.d # 0 /\ ret.kind # "RuntimeError") =>
     \A i \in (Len(rows) - NTracts(op.d) + 1)..Len(rows) : ptags[i] = op.p

EmitCase == (EmitCases /\ Len(hist) = MaxOps + 1) => PrintT(<<"CASE", ToJson([ops |-> hist])>>)
=============================================================================
