--------------------------- MODULE PlssDescTrace ---------------------------
(***************************************************************************)
(* Trace validation of PLSSDesc observations against ObsInvariants.        *)
(* Record: {"id", "x": {forced_copy_all, must_fall_back, both_found},      *)
(*          "markers": [ids], "o": <observation, see ObsInvariants>}       *)
(* The constant Prop selects the property whose clause is the verdict.     *)
(***************************************************************************)
EXTENDS ObsInvariants, IOUtils, TLC, Json

CONSTANT Prop
VARIABLE l
Trace == JsonDeserialize(IOEnv.TRACE_FILE)
TraceInit == l = 1
Consume == l <= Len(Trace) /\ l' = l + 1
TraceSpec == TraceInit /\ [][Consume]_l

Rec == Trace[l - 1]
Clause(r) == CASE Prop = "C03" -> ClauseC03(r.o)
               [] Prop = "C04" -> ClauseC04(r.o, r.markers)
               [] Prop = "C09" -> ClauseC09(r.o)
               [] Prop = "C10" -> ClauseC10(r.o)
               [] Prop = "C11" -> ClauseC11(r.o, r.x)
Verdict == l > 1 => (Clause(Rec) = "ok" \/ PrintT(<<"FAIL", Rec.id, Clause(Rec)>>))
AllConsumed ==
  /\ PrintT(<<"INFO", "consumed", TLCGet("stats").diameter - 1, Len(Trace)>>)
  /\ TLCGet("stats").diameter - 1 = Len(Trace)
=============================================================================
