-------------------------- MODULE TwpRgeLexTrace --------------------------
(***************************************************************************)
(* Trace validation for C08.  One record per rendered description:         *)
(*  {"id", "forms", "dflt", "src", "ocr",                                  *)
(*   "pp": [[t, ns, r, ew]]  Twp/Rges read off the preprocessed text       *)
(*                          ('T154N-R97W' -> [154, "N", 97, "W"]),         *)
(*   "found": same from find_twprge(text, preprocess=True, defaults),      *)
(*   "tracts": same from the tracts' Twp/Rge,                              *)
(*   "canon_pp": every Twp/Rge appears in the canonical spelling,          *)
(*   "warned": [bool per form] fixed_twprge warning names that Twp/Rge,    *)
(*   "same_tracts": tracts equal those of the fully written text, "exc"}   *)
(***************************************************************************)
EXTENDS TwpRgeLex, IOUtils

VARIABLE l
Trace == JsonDeserialize(IOEnv.TRACE_FILE)
tvars == <<vars, l>>
TraceInit == l = 1 /\ forms = <<>> /\ dflt = [ns |-> "N", ew |-> "W"] /\ src = [ns |-> "unset", ew |-> "unset"] /\ ocr = FALSE /\ phase = "trace"
Consume == /\ l <= Len(Trace) /\ l' = l + 1
           /\ forms' = Trace[l].forms /\ dflt' = Trace[l].dflt /\ src' = Trace[l].src /\ ocr' = Trace[l].ocr
           /\ phase' = "observed"
TraceSpec == TraceInit /\ [][Consume]_tvars
Rec == Trace[l - 1]

Want(r) == LET d == EffDefault(r.dflt, r.src) IN
           [i \in 1..Len(r.forms) |-> <<Meaning(r.forms[i], d).t, Meaning(r.forms[i], d).ns, Meaning(r.forms[i], d).r, Meaning(r.forms[i], d).ew>>]
Overridden(r, got) == \E i \in 1..Len(r.forms) : i <= Len(got) /\
                         ((r.forms[i].ns # "-" /\ got[i][2] # r.forms[i].ns) \/ (r.forms[i].ew # "-" /\ got[i][4] # r.forms[i].ew))
Clause(r) ==
  IF r.exc # "none" THEN "exception_raised"
  ELSE IF Overridden(r, r.pp) \/ Overridden(r, r.tracts) THEN "explicit_direction_overridden"
  ELSE IF r.pp # Want(r) THEN "preprocessed_twprge_differs"
  ELSE IF ~r.canon_pp THEN "preprocessed_text_not_in_canonical_spelling"
  ELSE IF r.found # Want(r) THEN "find_twprge_differs"
  ELSE IF r.tracts # Want(r) THEN "tract_twprge_differs"
  ELSE IF \E i \in 1..Len(r.forms) : Missing(r.forms[i]) /\ ~r.warned[i] THEN "missing_direction_not_reported"
  ELSE IF ~r.same_tracts THEN "tracts_differ_from_fully_written_text"
  ELSE "ok"
Verdict == phase = "observed" => (Clause(Rec) = "ok" \/ PrintT(<<"FAIL", Rec.id, Clause(Rec)>>))
AllConsumed ==
  /\ PrintT(<<"INFO", "consumed", TLCGet("stats").diameter - 1, Len(Trace)>>)
  /\ TLCGet("stats").diameter - 1 = Len(Trace)
=============================================================================
