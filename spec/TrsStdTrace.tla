---------------------------- MODULE TrsStdTrace ----------------------------
(***************************************************************************)
(* Trace validation for C12 (and the TRS half of C09).  One record per     *)
(* observation of the real code:                                           *)
(*  {"id", "kind": "build" | "str",                                        *)
(*   "build": {twp, rge, sec, dns, dew}   (kind build: the encodings used) *)
(*   "input": [chars]                     (kind str: the string wrapped)   *)
(*   "out": [chars]        the resulting .trs                              *)
(*   "rewrap": [chars]     TRS(out).trs                                    *)
(*   "eq": bool            TRS(out) == TRS(out') and equal hashes          *)
(*   "attrs": {twp: {k, n, d, s}, rge: {...}, sec: {k, n, s}, twprge: [chars]}*)
(*   "exc": "none" | class }                                               *)
(***************************************************************************)
EXTENDS TrsStd, IOUtils

VARIABLE l
Trace == JsonDeserialize(IOEnv.TRACE_FILE)
tvars == <<vars, l>>

TraceInit == /\ l = 1 /\ phase = "trace" /\ build = NoBuild /\ str = <<>>
             /\ comps = Meaning(NoBuild) /\ edit = NoEdit /\ base = <<>>
Consume ==
  /\ l <= Len(Trace)
  /\ l' = l + 1
  /\ LET r == Trace[l] IN
       /\ phase' = "observed"
       /\ build' = IF r.kind = "build" THEN r.build ELSE NoBuild
       /\ comps' = IF r.kind = "build" THEN Meaning(r.build) ELSE Meaning(NoBuild)
       /\ str' = r.out
       /\ base' = IF r.kind = "str" THEN r.input ELSE <<>>
       /\ edit' = [op |-> "rec", i |-> l, c |-> "-"]
TraceSpec == TraceInit /\ [][Consume]_tvars

Rec == Trace[l - 1]
AttrTR(a) == IF a.k = "num" THEN Num(a.n, a.d) ELSE IF a.k = "undef" THEN Undef ELSE Err
AttrSec(a) == IF a.k = "num" THEN SNum(a.n) ELSE IF a.k = "undef" THEN Undef ELSE Err
\* attributes = decomposition of the string (leading zeros such as '07n' are
\* standard form, so the textual attributes are compared with the segments)
AttrsOK(r) ==
  /\ IsExtStd(r.out)
  /\ LET d == Decompose(r.out)
         sp == CHOOSE p \in Splits(r.out) : TRUE
         t == SubSeq(r.out, 1, sp[1])
         g == SubSeq(r.out, sp[1] + 1, sp[2])
         c == SubSeq(r.out, sp[2] + 1, Len(r.out))
     IN
       /\ d.twp = AttrTR(r.attrs.twp) /\ d.rge = AttrTR(r.attrs.rge) /\ d.sec = AttrSec(r.attrs.sec)
       /\ r.attrs.twp.s = t /\ r.attrs.rge.s = g /\ r.attrs.sec.s = c
       /\ r.attrs.twprge = t \o g

\* is_error() / is_undef(), asked per component and for the whole, say what the string says: a component is reported
\* as an error (as undefined) exactly when it is the error (undefined) placeholder, whatever the other components are
ReportsOK(r) ==
  LET d == Decompose(r.out)
      Says(v) == <<d.twp = v, d.rge = v, d.sec = v, d.twp = v \/ d.rge = v \/ d.sec = v>>
  IN IsExtStd(r.out) => r.attrs.rep_err = Says(Err) /\ r.attrs.rep_undef = Says(Undef)
Clause(r) ==
  IF r.exc # "none" THEN "exception_raised"
  ELSE IF r.kind = "build" /\ r.out # Canon(Meaning(r.build)) THEN "not_canonical_for_components"
  ELSE IF r.kind = "str" /\ ~WrapOK(r.input, r.out) THEN
          (IF IsExtStd(r.input) THEN "standard_string_not_kept" ELSE "nonstandard_string_accepted")
  ELSE IF r.kind = "str" /\ LooksValid(r.out) /\ r.out # LowerAll(r.input) THEN "different_valid_looking_trs"
  ELSE IF ~AttrsOK(r) THEN "attributes_not_decomposition"
  ELSE IF ~ReportsOK(r) THEN "error_or_undefined_not_reported_per_component"
  ELSE IF r.rewrap # r.out THEN "wrap_not_idempotent"
  ELSE IF ~r.eq THEN "equal_strings_unequal_objects"
  ELSE "ok"
Verdict == phase = "observed" => (Clause(Rec) = "ok" \/ PrintT(<<"FAIL", Rec.id, Clause(Rec)>>))
Drift == phase = "observed" =>
           \/ Rec.kind # "str" \/ Rec.exc # "none"
           \/ Rec.out = WrapModel(Rec.input)
           \/ PrintT(<<"INFO", "drift", Rec.id>>)
AllConsumed ==
  /\ PrintT(<<"INFO", "consumed", TLCGet("stats").diameter - 1, Len(Trace)>>)
  /\ TLCGet("stats").diameter - 1 = Len(Trace)
=============================================================================
