----------------------------- MODULE TwpRgeLex -----------------------------
(***************************************************************************)
(* Written forms of a Township/Range and how missing directions are filled *)
(* (pytrs/parser/rgxlib/twprge.py, plssdesc/plss_preprocess.py,            *)
(*  unpack/unpackers.py :: unpack_twprge) - property C08.                  *)
(*                                                                         *)
(* A written form is [tmpl, t, ns, r, ew] : a template class (which words  *)
(* for "Township"/"Range" are present), the numbers, and for each          *)
(* direction either its letter or "-" (absent).  The defaults in force     *)
(* come from one source (config text, parse keyword, MasterConfig).        *)
(* Meaning(form, dflt) is the Twp/Rge it denotes: an explicit direction is *)
(* never overridden, an absent one is the default, and a warning is due    *)
(* exactly when something was absent.  Readable() states which forms are   *)
(* documented spellings (the preprocessing patterns need the T and R words *)
(* when a direction is missing; range 2 needs the R word).                 *)
(***************************************************************************)
EXTENDS Naturals, Integers, Sequences, FiniteSets, TLC, Json

CONSTANTS MaxTR, Fault, EmitCases

Templates == {"T-R", "T R", "Township,Range", "Twp.,Rge.", "T.,R.", "bare", "lower"}
HasWords(tm) == tm # "bare"
TwpNums == {0, 1, 7, 104, 154}
RgeNums == {0, 2, 12, 97, 100}
Dirs(axis) == IF axis = "ns" THEN {"N", "S"} ELSE {"E", "W"}
Forms == [tmpl : Templates, t : TwpNums, ns : {"N", "S", "-"}, r : RgeNums, ew : {"E", "W", "-"}]
Readable(f) ==
  /\ (f.ns = "-" \/ f.ew = "-") => HasWords(f.tmpl)
  /\ f.r = 2 => HasWords(f.tmpl)
OcrReadable(f) == ~(f.ns = "-" \/ f.ew = "-") /\ HasWords(f.tmpl) /\ f.r # 2
Defaults == [ns : {"N", "S"}, ew : {"E", "W"}]
Sources == {"config", "keyword", "masterconfig", "unset"}      \* unset: library defaults (N, W)
\* each axis has its own source (e.g. N/S from the config text, E/W from a parse keyword)
SrcPairs == [ns : Sources, ew : Sources]
EffDefault(d, src) == [ns |-> IF src.ns = "unset" THEN "N" ELSE d.ns, ew |-> IF src.ew = "unset" THEN "W" ELSE d.ew]

Meaning(f, d) ==
  [t |-> f.t, r |-> f.r,
   ns |-> IF f.ns # "-" /\ Fault # "default_overrides" THEN f.ns ELSE d.ns,
   ew |-> IF f.ew # "-" THEN f.ew ELSE d.ew]
Missing(f) == f.ns = "-" \/ f.ew = "-"

VARIABLES forms, dflt, src, ocr, phase
vars == <<forms, dflt, src, ocr, phase>>
Init == forms = <<>> /\ dflt \in Defaults /\ src \in SrcPairs /\ ocr \in BOOLEAN /\ phase = "choose"
Choose == /\ phase = "choose"
          /\ \E n \in 1..MaxTR : \E fs \in [1..n -> Forms] :
               /\ \A i \in 1..n : Readable(fs[i])
               \* (with ocr_scrub, look-alike characters are written only into forms the OCR pattern can read: both
               \*  directions, the word/letter for Township, no single-digit range 2 - see OcrReadable; every other
               \*  form is written with plain digits and must be read as without ocr_scrub)
               /\ forms' = fs
          /\ phase' = "chosen" /\ UNCHANGED <<dflt, src, ocr>>
Spec == Init /\ [][Choose]_vars

D == EffDefault(dflt, src)
ExplicitKept == phase = "chosen" => \A i \in 1..Len(forms) :
                  /\ (forms[i].ns # "-" => Meaning(forms[i], D).ns = forms[i].ns)
                  /\ (forms[i].ew # "-" => Meaning(forms[i], D).ew = forms[i].ew)
MissingFromDefault == phase = "chosen" => \A i \in 1..Len(forms) :
                  /\ (forms[i].ns = "-" => Meaning(forms[i], D).ns = D.ns)
                  /\ (forms[i].ew = "-" => Meaning(forms[i], D).ew = D.ew)
SameAsWrittenOut == phase = "chosen" => \A i \in 1..Len(forms) :
                  Meaning(forms[i], D) = Meaning([forms[i] EXCEPT !.ns = Meaning(forms[i], D).ns, !.ew = Meaning(forms[i], D).ew], D)

EmitCase == (EmitCases /\ phase = "chosen") =>
  PrintT(<<"CASE", ToJson([forms |-> forms, dflt |-> dflt, src |-> src, ocr |-> ocr,
                           expect |-> [i \in 1..Len(forms) |-> Meaning(forms[i], D)],
                           warn |-> \E i \in 1..Len(forms) : Missing(forms[i])])>>)
=============================================================================
